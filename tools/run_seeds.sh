#!/bin/bash
# run_seeds.sh [name...]: applies each seeded change to /repo, runs the check of its
# property (quick tier), records whether a VIOLATION was reported, and restores /repo.
cd /verif
if [ -n "$(git -C /repo status --short)" ]; then echo "refusing: /repo has uncommitted changes"; exit 1; fi
names="$@"; [ -z "$names" ] && names=$(ls seeded)
for n in $names; do
  p=$(python3 -c "import json;print(json.load(open('/verif/seeded/$n/meta.json'))['property'])")
  extra=$(python3 -c "import json;print(' '.join(json.load(open('/verif/seeded/$n/meta.json')).get('also_check',[])))")
  if ! git -C /repo apply /verif/seeded/$n/patch.diff; then echo "$n: patch does not apply"; continue; fi
  res=""
  for q in $p $extra; do
    out=$(timeout 900 /verif/bin/gvc check $q quick 2>&1)
    v=$(echo "$out" | grep -c "^VIOLATION")
    first=$(echo "$out" | grep -m2 "^FAILED\|^MISSING\|CHECK-BROKEN" | tr '\n' ';' | cut -c1-300)
    res="$res $q:violations=$v [$first]"
  done
  git -C /repo checkout -- . 
  echo "$n ->$res"
done
git -C /repo status --short | head -3
