#!/bin/bash
# import_seed.sh <PROP> <name>: takes /tmp/seed/<PROP>/SEED_RESULT, re-verifies it in a
# fresh scratch worktree of /repo HEAD (build, full suite with the change, demo fails
# with / passes without), and stores it as /verif/seeded/<name>/.
set -u
P=$1; NAME=$2
SRC=/tmp/seed/$P/SEED_RESULT
export GOFLAGS=-mod=mod GOPROXY=off GOSUMDB=off GOTOOLCHAIN=local
WT=/tmp/seedverify-$NAME
git -C /repo worktree remove --force $WT 2>/dev/null
git -C /repo worktree add -q --detach $WT HEAD || exit 1
cd $WT
LOG=/tmp/seedverify-$NAME.log; : > $LOG
if ! git apply $SRC/patch.diff 2>>$LOG; then echo "PATCH-DOES-NOT-APPLY"; git -C /repo worktree remove --force $WT; exit 1; fi
go build ./... >>$LOG 2>&1 && echo "build: ok" || echo "build: FAIL"
SUITE=$(go test -vet=off -count=1 ./... 2>&1 | tee -a $LOG | grep -c "^FAIL")
echo "suite with change: $SUITE failing packages"
# demo: find demo test files
DEMOS=$(ls $SRC/*_test.go 2>/dev/null)
DEMODIR=$(python3 -c "
import json;m=json.load(open('$SRC/meta.json'));print(m.get('demo_dir',''))" 2>/dev/null)
for d in $DEMOS; do
  pkg=$(grep -m1 '^package ' $d | awk '{print $2}')
  # place next to the package named like the test's package, guessing from the original worktree location
  orig=$(cd /tmp/seed/$P && git status --short | grep -v SEED_RESULT | grep "_test.go" | awk '{print $2}' | head -1)
  [ -z "$orig" ] && orig=$(cd /tmp/seed/$P && git ls-files --others --exclude-standard | grep -v SEED_RESULT | grep "_test.go" | head -1)
  dest=$WT/$orig
  mkdir -p $(dirname $dest); cp $d $dest
  echo "demo placed at $orig"
  rel=$(dirname $orig)
  W=$(cd $WT && go test -vet=off -count=1 ./$rel/ 2>&1 | tee -a $LOG | tail -1)
  echo "demo WITH change: $W"
  git apply -R $SRC/patch.diff
  WO=$(cd $WT && go test -vet=off -count=1 ./$rel/ 2>&1 | tee -a $LOG | tail -1)
  echo "demo WITHOUT change: $WO"
  git apply $SRC/patch.diff
  DEMOREL=$orig
done
mkdir -p /verif/seeded/$NAME
cp $SRC/patch.diff /verif/seeded/$NAME/patch.diff
for d in $DEMOS; do cp $d /verif/seeded/$NAME/$(basename $d).txt; done
cp $SRC/meta.json /verif/seeded/$NAME/agent_meta.json
echo "${DEMOREL:-}" > /verif/seeded/$NAME/demo_path.txt
cd /; git -C /repo worktree remove --force $WT
