#!/bin/bash
# import_seed2.sh <PROP> <name>: takes /tmp/seed-<PROP>/_seed (patch.diff, demo_test.go.txt,
# meta.json with demo_dir/demo_run), re-verifies it in a fresh scratch worktree of /repo HEAD
# (build, full suite with the change, demo fails with / passes without the change) and
# stores it as /verif/seeded/<name>/.
set -u
P=$1; NAME=$2
SRC=/tmp/seed-$P/_seed
export GOFLAGS=-mod=mod GOPROXY=off GOSUMDB=off GOTOOLCHAIN=local
WT=/tmp/seedverify-$NAME
git -C /repo worktree remove --force $WT 2>/dev/null
git -C /repo worktree add -q --detach $WT HEAD || exit 1
cd $WT
LOG=/tmp/seedverify-$NAME.log; : > $LOG
if ! git apply $SRC/patch.diff 2>>$LOG; then echo "$NAME: PATCH-DOES-NOT-APPLY"; cd /; git -C /repo worktree remove --force $WT; exit 1; fi
B=ok; go build ./... >>$LOG 2>&1 || B=FAIL
SUITE=$(go test -vet=off -count=1 ./... 2>&1 | tee -a $LOG | grep -c "^FAIL")
DEMODIR=$(python3 -c "import json;print(json.load(open('$SRC/meta.json')).get('demo_dir','.'))")
RUN=$(python3 -c "import json;print(json.load(open('$SRC/meta.json')).get('demo_run',''))")
DEMOREL=$DEMODIR/zz_seed_demo_test.go
cp $SRC/demo_test.go.txt $WT/$DEMOREL
W=$(cd $WT && eval "$RUN" 2>&1 | tee -a $LOG | tail -1 | cut -c1-60)
git apply -R $SRC/patch.diff
WO=$(cd $WT && eval "$RUN" 2>&1 | tee -a $LOG | tail -1 | cut -c1-60)
echo "$NAME: build=$B suite_failing=$SUITE demo_with=[$W] demo_without=[$WO]"
mkdir -p /verif/seeded/$NAME
cp $SRC/patch.diff /verif/seeded/$NAME/patch.diff
cp $SRC/demo_test.go.txt /verif/seeded/$NAME/zz_seed_demo_test.go.txt
cp $SRC/meta.json /verif/seeded/$NAME/agent_meta.json
echo "$DEMOREL" > /verif/seeded/$NAME/demo_path.txt
python3 - <<PY
import json
a=json.load(open('$SRC/meta.json'))
m={"id":"$NAME","property":"$P","summary":a.get("summary",""),"needs":a.get("trigger",""),"files_changed":a.get("files",[]),
"demo_file":"$DEMOREL","demo":a.get("demo_run",""),
"verified_by_me":{"how":"tools/import_seed2.sh: patch applied to a fresh scratch worktree of /repo HEAD; go build ./...; full suite go test -vet=off -count=1 ./...; demonstration test placed at demo_file fails with the change and passes with the change reverted",
"build":"$B","suite_failing_packages_with_change":int("$SUITE"),"demo_with_change":"""$W""","demo_without_change":"""$WO"""},
"origin":"independent sub-agent given only the property text and a contract-free scratch worktree"}
json.dump(m,open('/verif/seeded/$NAME/meta.json','w'),indent=1)
PY
cd /; git -C /repo worktree remove --force $WT
