#!/usr/bin/env python3
# Generates /verif/MANIFEST.json from the table below (kept in one place so
# that claims, notes and not-applicable reasons stay consistent).
import json, subprocess

TECH = "contract-based deductive verification: function contracts in guarded comment files, verification conditions generated over go/ssa by /verif/gvc, discharged by a z3 5.1 / cvc5 1.0 / z3 4.8 portfolio"

claims = {}
def claim(pid, text, note, ref):
    claims[pid] = dict(text=text, note=note, ref=ref)

# filled in below; properties missing here are listed under not_applicable
exec(open('/verif/tools/claims.py').read())

props = [json.loads(l)['id'] for l in open('/verif/properties.jsonl')]
commits = subprocess.run(['git','-C','/repo','log','--format=%H %s'],capture_output=True,text=True).stdout.strip().split('\n')
hook_commits = [c.split()[0] for c in commits if c.split(' ',1)[1].startswith('verif:')]
checks = []
for p in props:
    if p not in claims: continue
    c = claims[p]
    checks.append({
        "property_id": p,
        "quick_cmd": f"/verif/bin/gvc check {p} quick",
        "thorough_cmd": f"/verif/bin/gvc check {p} thorough",
        "evidence_file": f"/verif/evidence/{p}.json",
        "replay_cmd_template": "/verif/bin/gvc replay {path}",
        "engine": "gvc",
        "level_claimed": {"category": "proof", "text": c['text'], "design_ref": c['ref']},
        "level_note": c['note'],
        "technique": TECH,
    })
na = [{"property_id": p, "reason": NA.get(p, "no contract within reach decides this property yet; see DESIGN.md")} for p in props if p not in claims]
m = {
 "version": 1,
 "setup_cmd": "cd /verif/gvc && GOFLAGS=-mod=mod GOPROXY=off GOSUMDB=off GOTOOLCHAIN=local go build -o /verif/bin/gvc .",
 "hooks": {"guard": "verif",
           "enable": "build tag verif: comment-only contract files */zz_contracts_verif.go (//go:build verif); gvc loads /repo with -tags=verif and an in-memory overlay of generated stubs",
           "baseline_off_cmd": "cd /repo && GOFLAGS=-mod=mod GOPROXY=off GOSUMDB=off go test -vet=off -count=1 -timeout 25m ./...",
           "source_commits": hook_commits, "add_only": True},
 "engines": [{"name": "gvc", "path": "/verif/gvc", "serves_properties": [c["property_id"] for c in checks],
              "kind_free_text": "verification-condition generator over go/ssa (x/tools v0.29.0): symbolic execution with state merging, loops cut by invariants, callees by contract / pure-function abstraction / inlining, library models; one SMT-LIB query per obligation; counterexamples replayed on the real code through go test -overlay"}],
 "checks": checks,
 "not_applicable": na,
 "notes": "Obligation baseline: /verif/obligations.lock; known findings and fixes: /verif/known-findings.json; seeded changes: /verif/seeded/. A locked obligation that can no longer be generated or discharged is reported as a violation."
}
json.dump(m, open('/verif/MANIFEST.json','w'), indent=1)
print("checks:", [c['property_id'] for c in checks], "n/a:", [x['property_id'] for x in na])
