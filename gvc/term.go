package main

// Term DAG (hash-consed), sorts, smart constructors with light simplification,
// and SMT-LIB 2.6 printing.

import (
	"fmt"
	"math/big"
	"sort"
	"strings"
)

type Sort struct {
	Name string // SMT-LIB spelling
	Kind string // bool int string dt array
	Key  *Sort  // arrays
	Val  *Sort
	DT   *Datatype
}

type Datatype struct {
	Name  string
	Ctors []CtorDef
	Deps  []*Sort // sorts that must be declared before this one
}
type CtorDef struct {
	Name   string
	Fields []CtorField
}
type CtorField struct {
	Name string
	Sort *Sort
}

var (
	BoolS   = &Sort{Name: "Bool", Kind: "bool"}
	IntS    = &Sort{Name: "Int", Kind: "int"}
	StringS = &Sort{Name: "String", Kind: "string"}
	PathS   *Sort
	LocS    *Sort
	SliceS  *Sort
	AnyS    *Sort
	IfaceS  *Sort
)

var arraySorts = map[string]*Sort{}

func ArrayOf(k, v *Sort) *Sort {
	n := "(Array " + k.Name + " " + v.Name + ")"
	if s, ok := arraySorts[n]; ok {
		return s
	}
	s := &Sort{Name: n, Kind: "array", Key: k, Val: v}
	arraySorts[n] = s
	return s
}

func newDT(name string) *Sort {
	return &Sort{Name: name, Kind: "dt", DT: &Datatype{Name: name}}
}

func initSorts() bool {
	PathS = newDT("Path")
	PathS.DT.Ctors = []CtorDef{
		{"pnil", nil},
		{"pfld", []CtorField{{"pf_rest", PathS}, {"pf_idx", IntS}}},
		{"pelem", []CtorField{{"pe_rest", PathS}, {"pe_idx", IntS}}},
	}
	LocS = newDT("Loc")
	LocS.DT.Ctors = []CtorDef{{"mkloc", []CtorField{{"obj", IntS}, {"path", PathS}}}}
	LocS.DT.Deps = []*Sort{PathS}
	SliceS = newDT("Slice")
	SliceS.DT.Ctors = []CtorDef{{"mkslice", []CtorField{{"sbase", LocS}, {"soff", IntS}, {"slen", IntS}, {"scap", IntS}}}}
	SliceS.DT.Deps = []*Sort{LocS}
	AnyS = newDT("Any")
	AnyS.DT.Ctors = []CtorDef{
		{"a_nil", nil},
		{"a_loc", []CtorField{{"aloc", LocS}}},
		{"a_str", []CtorField{{"astr", StringS}}},
		{"a_int", []CtorField{{"aint", IntS}}},
		{"a_bool", []CtorField{{"abool", BoolS}}},
		{"a_box", []CtorField{{"abox", IntS}}},
		{"a_slice", []CtorField{{"aslice", SliceS}}},
	}
	AnyS.DT.Deps = []*Sort{LocS, SliceS}
	IfaceS = newDT("Iface")
	IfaceS.DT.Ctors = []CtorDef{{"mkiface", []CtorField{{"itag", IntS}, {"ival", AnyS}}}}
	IfaceS.DT.Deps = []*Sort{AnyS}
	return true
}

var sortsReady = initSorts()

func afterSorts(f func() *Term) *Term {
	_ = sortsReady
	return f()
}

type Term struct {
	Op       string
	Args     []*Term
	Sort     *Sort
	IVal     *big.Int // op == "int"
	SVal     string   // op == "str" | "sym" | "bvar"
	BVal     bool     // op == "bool"
	id       int
	hasBound bool
	// quantifier: Op "forall", Args[0] body, Bound list
	Bound []*Term
	Elems []*Term // op == "tuple"
}

var (
	termTable = map[string]*Term{}
	termCount int
)

func mk(op string, sort *Sort, args ...*Term) *Term {
	var sb strings.Builder
	sb.WriteString(op)
	sb.WriteByte('|')
	sb.WriteString(sort.Name)
	hb := false
	for _, a := range args {
		if a == nil {
			panic("nil arg to " + op)
		}
		fmt.Fprintf(&sb, "|%d", a.id)
		hb = hb || a.hasBound
	}
	k := sb.String()
	if t, ok := termTable[k]; ok {
		if caseTruth != nil && sort == BoolS {
			if v, ok := caseTruth[t.id]; ok {
				return BoolT(v)
			}
		}
		return t
	}
	termCount++
	t := &Term{Op: op, Args: args, Sort: sort, id: termCount, hasBound: hb}
	termTable[k] = t
	return t
}

// caseTruth: atoms decided by the case currently being verified (see the
// `case` clauses of contracts); constructing such an atom yields its value.
var caseTruth map[int]bool

var (
	True  = &Term{Op: "bool", Sort: BoolS, BVal: true, id: -1}
	False = &Term{Op: "bool", Sort: BoolS, BVal: false, id: -2}
)

func BoolT(b bool) *Term {
	if b {
		return True
	}
	return False
}

func IntT(v int64) *Term { return BigT(big.NewInt(v)) }
func BigT(v *big.Int) *Term {
	k := "int|" + v.String()
	if t, ok := termTable[k]; ok {
		return t
	}
	termCount++
	t := &Term{Op: "int", Sort: IntS, IVal: new(big.Int).Set(v), id: termCount}
	termTable[k] = t
	return t
}
func StrT(s string) *Term {
	k := "str|" + s
	if t, ok := termTable[k]; ok {
		return t
	}
	termCount++
	t := &Term{Op: "str", Sort: StringS, SVal: s, id: termCount}
	termTable[k] = t
	return t
}

// Sym is a free constant (declared with declare-fun).
func Sym(name string, s *Sort) *Term {
	k := "sym|" + name + "|" + s.Name
	if t, ok := termTable[k]; ok {
		return t
	}
	termCount++
	t := &Term{Op: "sym", Sort: s, SVal: name, id: termCount}
	termTable[k] = t
	return t
}

var freshCtr = map[string]int{}

func Fresh(prefix string, s *Sort) *Term {
	freshCtr[prefix]++
	return Sym(fmt.Sprintf("%s!%d", prefix, freshCtr[prefix]), s)
}

var bvarCtr int

func BoundVar(s *Sort) *Term {
	bvarCtr++
	termCount++
	return &Term{Op: "bvar", Sort: s, SVal: fmt.Sprintf("bv%d", bvarCtr), id: termCount, hasBound: true}
}

func (t *Term) IsConst() bool { return t.Op == "int" || t.Op == "str" || t.Op == "bool" }
func (t *Term) IsTrue() bool  { return t == True }
func (t *Term) IsFalse() bool { return t == False }

// ---- uninterpreted functions ----

type UF struct {
	Name string
	Args []*Sort
	Res  *Sort
}

var ufTable = map[string]*UF{}

func DeclUF(name string, res *Sort, args ...*Sort) *UF {
	if u, ok := ufTable[name]; ok {
		return u
	}
	u := &UF{Name: name, Args: args, Res: res}
	ufTable[name] = u
	return u
}

func App(u *UF, args ...*Term) *Term {
	if len(args) != len(u.Args) {
		panic("arity " + u.Name)
	}
	for i, a := range args {
		if a.Sort != u.Args[i] {
			panic(fmt.Sprintf("UF %s arg %d: sort %s, want %s", u.Name, i, a.Sort.Name, u.Args[i].Name))
		}
	}
	return mk("uf:"+u.Name, u.Res, args...)
}

// ---- boolean ----

func Not(a *Term) *Term {
	if a.IsTrue() {
		return False
	}
	if a.IsFalse() {
		return True
	}
	if a.Op == "not" {
		return a.Args[0]
	}
	return mk("not", BoolS, a)
}

func And(xs ...*Term) *Term {
	var out []*Term
	seen := map[int]bool{}
	for _, x := range xs {
		if x.IsFalse() {
			return False
		}
		if x.IsTrue() {
			continue
		}
		if x.Op == "and" {
			for _, y := range x.Args {
				if !seen[y.id] {
					seen[y.id] = true
					out = append(out, y)
				}
			}
			continue
		}
		if !seen[x.id] {
			seen[x.id] = true
			out = append(out, x)
		}
	}
	for _, x := range out {
		if x.Op == "not" && seen[x.Args[0].id] {
			return False
		}
	}
	if len(out) == 0 {
		return True
	}
	if len(out) == 1 {
		return out[0]
	}
	return mk("and", BoolS, out...)
}

func Or(xs ...*Term) *Term {
	var out []*Term
	seen := map[int]bool{}
	for _, x := range xs {
		if x.IsTrue() {
			return True
		}
		if x.IsFalse() {
			continue
		}
		if x.Op == "or" {
			for _, y := range x.Args {
				if !seen[y.id] {
					seen[y.id] = true
					out = append(out, y)
				}
			}
			continue
		}
		if !seen[x.id] {
			seen[x.id] = true
			out = append(out, x)
		}
	}
	for _, x := range out {
		if x.Op == "not" && seen[x.Args[0].id] {
			return True
		}
	}
	if len(out) == 0 {
		return False
	}
	if len(out) == 1 {
		return out[0]
	}
	// (a & b) | (a & !b) => a   (common at CFG joins)
	if len(out) == 2 {
		if r := factorOr(out[0], out[1]); r != nil {
			return r
		}
	}
	if len(out) > 2 {
		// keep the conjuncts common to all disjuncts at top level
		common := map[int]*Term{}
		for _, x := range conj(out[0]) {
			common[x.id] = x
		}
		for _, d := range out[1:] {
			in := map[int]bool{}
			for _, x := range conj(d) {
				in[x.id] = true
			}
			for id := range common {
				if !in[id] {
					delete(common, id)
				}
			}
			if len(common) == 0 {
				break
			}
		}
		if len(common) > 0 {
			var cs []*Term
			for _, x := range conj(out[0]) {
				if common[x.id] != nil {
					cs = append(cs, x)
				}
			}
			var rests []*Term
			for _, d := range out {
				var r []*Term
				for _, x := range conj(d) {
					if common[x.id] == nil {
						r = append(r, x)
					}
				}
				rests = append(rests, And(r...))
			}
			return And(append(cs, Or(rests...))...)
		}
	}
	return mk("or", BoolS, out...)
}

func conj(t *Term) []*Term {
	if t.Op == "and" {
		return t.Args
	}
	return []*Term{t}
}

func factorOr(a, b *Term) *Term {
	ca, cb := conj(a), conj(b)
	inB := map[int]bool{}
	for _, x := range cb {
		inB[x.id] = true
	}
	var common, ra, rb []*Term
	inCommon := map[int]bool{}
	for _, x := range ca {
		if inB[x.id] {
			common = append(common, x)
			inCommon[x.id] = true
		} else {
			ra = append(ra, x)
		}
	}
	if len(common) == 0 {
		return nil
	}
	for _, x := range cb {
		if !inCommon[x.id] {
			rb = append(rb, x)
		}
	}
	if len(ra) == 0 || len(rb) == 0 {
		return And(common...)
	}
	if len(ra) == 1 && len(rb) == 1 && Not(ra[0]) == rb[0] {
		return And(common...)
	}
	rest := mk("or", BoolS, And(ra...), And(rb...))
	return And(append(common, rest)...)
}

func Implies(a, b *Term) *Term { return Or(Not(a), b) }

func Ite(c, a, b *Term) *Term {
	if c.IsTrue() {
		return a
	}
	if c.IsFalse() {
		return b
	}
	if a == b {
		return a
	}
	if a.Sort != b.Sort {
		panic(fmt.Sprintf("ite sorts %s vs %s", a.Sort.Name, b.Sort.Name))
	}
	if a.Op == "tuple" {
		els := make([]*Term, len(a.Elems))
		for i := range a.Elems {
			els[i] = Ite(c, a.Elems[i], b.Elems[i])
		}
		return Tuple(els...)
	}
	if a.Sort == BoolS {
		if a.IsTrue() && b.IsFalse() {
			return c
		}
		if a.IsFalse() && b.IsTrue() {
			return Not(c)
		}
		if a.IsTrue() {
			return Or(c, b)
		}
		if a.IsFalse() {
			return And(Not(c), b)
		}
		if b.IsFalse() {
			return And(c, a)
		}
		if b.IsTrue() {
			return Or(Not(c), a)
		}
	}
	if c.Op == "not" {
		return Ite(c.Args[0], b, a)
	}
	if a.Sort == StringS && (a.Op == "str.++" || b.Op == "str.++") {
		// factor what both alternatives share out of the choice: first equal
		// leading parts, then a common head of two constants, then equal
		// trailing parts (in this order, so that "x\n" vs "x\ny = z\n" becomes
		// "x\n" ++ ite(c, "", "y = z\n"), the shape specifications have)
		pa, pb := concatParts(a), concatParts(b)
		i := 0
		for i < len(pa) && i < len(pb) && pa[i] == pb[i] {
			i++
		}
		lead := append([]*Term{}, pa[:i]...)
		ra, rb := append([]*Term{}, pa[i:]...), append([]*Term{}, pb[i:]...)
		if len(ra) > 0 && len(rb) > 0 && ra[0].Op == "str" && rb[0].Op == "str" {
			x, y := ra[0].SVal, rb[0].SVal
			n := 0
			for n < len(x) && n < len(y) && x[n] == y[n] {
				n++
			}
			if n > 0 {
				lead = append(lead, StrT(x[:n]))
				ra[0], rb[0] = StrT(x[n:]), StrT(y[n:])
			}
		}
		ja, jb := len(ra), len(rb)
		for ja > 0 && jb > 0 && ra[ja-1] == rb[jb-1] && !(ra[ja-1].Op == "str" && ra[ja-1].SVal == "") {
			ja--
			jb--
		}
		if len(lead) > 0 || ja < len(ra) {
			var parts []*Term
			parts = append(parts, lead...)
			parts = append(parts, Ite(c, Concat(ra[:ja]...), Concat(rb[:jb]...)))
			parts = append(parts, ra[ja:]...)
			return Concat(parts...)
		}
	}
	// ite(c, x, ite(c, y, z)) => ite(c, x, z)
	if b.Op == "ite" && b.Args[0] == c {
		return Ite(c, a, b.Args[2])
	}
	if a.Op == "ite" && a.Args[0] == c {
		return Ite(c, a.Args[1], b)
	}
	// same constructor on both sides: push inside (keeps tags/ids static)
	if a.Op == b.Op && strings.HasPrefix(a.Op, "ctor:") && len(a.Args) == len(b.Args) {
		args := make([]*Term, len(a.Args))
		for i := range a.Args {
			args[i] = Ite(c, a.Args[i], b.Args[i])
		}
		return mk(a.Op, a.Sort, args...)
	}
	return mk("ite", a.Sort, c, a, b)
}

var tupleSort = &Sort{Name: "<tuple>", Kind: "tuple"}

func Tuple(els ...*Term) *Term {
	termCount++
	return &Term{Op: "tuple", Sort: tupleSort, Elems: els, id: termCount}
}

// ---- equality ----

func distinctConsts(a, b *Term) bool {
	if a.Op == "int" && b.Op == "int" {
		return a.IVal.Cmp(b.IVal) != 0
	}
	if a.Op == "str" && b.Op == "str" {
		return a.SVal != b.SVal
	}
	if a.Op == "bool" && b.Op == "bool" {
		return a != b
	}
	return false
}

// linear form base+k for simple Int terms
func linForm(t *Term) (*Term, *big.Int) {
	if t.Op == "int" {
		return nil, t.IVal
	}
	if t.Op == "+" && len(t.Args) == 2 && t.Args[1].Op == "int" {
		return t.Args[0], t.Args[1].IVal
	}
	return t, big.NewInt(0)
}

var eqCache = map[[2]int]*Term{}

// lowerBounds records facts  sym >= base + k  for allocation-counter symbols
// (set by the executor); they let object identities be compared syntactically.
type lowerBound struct {
	base *Term // nil: constant
	k    *big.Int
}

var lowerBounds = map[int]lowerBound{}

func NoteLowerBound(sym, prev *Term) {
	b, k := linForm(prev)
	lowerBounds[sym.id] = lowerBound{b, k}
}

// nilOrGe records facts  t == 0 || t >= bound  (objects reachable from inputs
// are nil or were not allocated by package initialisation).
var nilOrGe = map[int]*big.Int{}

func NoteNilOrGe(t, bound *Term) {
	if bound.Op == "int" {
		nilOrGe[t.id] = bound.IVal
	}
}

// upperBounds records facts  t < bound  for object ids read from memory.
var upperBounds = map[int]*Term{}

func NoteUpperBound(t, bound *Term) { upperBounds[t.id] = bound }

// KnownGe reports that x >= y follows from the recorded bounds.
func KnownGe(x, y *Term) bool {
	if x == y || knownGreater(x, y) {
		return true
	}
	bx, kx := linForm(x)
	by, ky := linForm(y)
	if bx == by && kx.Cmp(ky) >= 0 {
		return true
	}
	// x = f + k with f >= base + j: follow the chain allowing equality
	k := new(big.Int).Set(kx)
	for i := 0; i < 64 && bx != nil; i++ {
		lb, ok := lowerBounds[bx.id]
		if !ok {
			return false
		}
		bx = lb.base
		k = new(big.Int).Add(k, lb.k)
		if bx == by && k.Cmp(ky) >= 0 {
			return true
		}
	}
	return false
}

// knownGreater reports that x > y follows from the recorded bounds.
func knownGreater(x, y *Term) bool {
	if ub, ok := upperBounds[y.id]; ok {
		// y < ub <= x ?
		if ub == x || knownGreater(x, ub) {
			return true
		}
		bu, ku := linForm(ub)
		bx, kx := linForm(x)
		if bu == bx && kx.Cmp(ku) >= 0 {
			return true
		}
	}
	bx, kx := linForm(x)
	by, ky := linForm(y)
	k := new(big.Int).Set(kx)
	for i := 0; i < 64; i++ {
		if bx == by {
			return k.Cmp(ky) > 0
		}
		if bx == nil {
			return false
		}
		lb, ok := lowerBounds[bx.id]
		if !ok {
			return false
		}
		bx = lb.base
		k = new(big.Int).Add(k, lb.k)
	}
	return false
}

func Eq(a, b *Term) *Term {
	if a == b {
		return True
	}
	if a.Op == "ite" || b.Op == "ite" {
		k := [2]int{a.id, b.id}
		if r, ok := eqCache[k]; ok {
			return r
		}
		r := eq1(a, b)
		eqCache[k] = r
		return r
	}
	return eq1(a, b)
}

func eq1(a, b *Term) *Term {
	if a == b {
		return True
	}
	if a.Sort != b.Sort {
		panic(fmt.Sprintf("eq sorts %s vs %s (%s, %s)", a.Sort.Name, b.Sort.Name, a.Op, b.Op))
	}
	if a.Op == "tuple" {
		var cs []*Term
		for i := range a.Elems {
			cs = append(cs, Eq(a.Elems[i], b.Elems[i]))
		}
		return And(cs...)
	}
	if a.IsConst() && b.IsConst() {
		return BoolT(!distinctConsts(a, b))
	}
	if a.Sort == StringS && (a.Op == "str.++" || b.Op == "str.++") {
		// cancel structurally equal leading and trailing parts
		pa, pb := concatParts(a), concatParts(b)
		i := 0
		for i < len(pa) && i < len(pb) && pa[i] == pb[i] {
			i++
		}
		ja, jb := len(pa), len(pb)
		for ja > i && jb > i && pa[ja-1] == pb[jb-1] {
			ja--
			jb--
		}
		if i > 0 || ja < len(pa) {
			return Eq(Concat(pa[i:ja]...), Concat(pb[i:jb]...))
		}
	}
	if a.Sort == StringS {
		// a concatenation with a non-empty constant part is not empty
		for _, p := range [][2]*Term{{a, b}, {b, a}} {
			if p[0].Op == "str" && p[0].SVal == "" && p[1].Op == "str.++" {
				for _, x := range p[1].Args {
					if x.Op == "str" && x.SVal != "" {
						return False
					}
				}
			}
		}
	}
	if a.Sort == IntS {
		ba, ka := linForm(a)
		bb, kb := linForm(b)
		if ba == bb {
			return BoolT(ka.Cmp(kb) == 0)
		}
		if knownGreater(a, b) || knownGreater(b, a) {
			return False
		}
		for _, p := range [][2]*Term{{a, b}, {b, a}} {
			if lo, ok := nilOrGe[p[0].id]; ok && p[1].Op == "int" && p[1].IVal.Sign() != 0 && p[1].IVal.Cmp(lo) < 0 {
				return False
			}
		}
	}
	if a.Sort == BoolS {
		if a.IsTrue() {
			return b
		}
		if b.IsTrue() {
			return a
		}
		if a.IsFalse() {
			return Not(b)
		}
		if b.IsFalse() {
			return Not(a)
		}
	}
	if strings.HasPrefix(a.Op, "ctor:") && strings.HasPrefix(b.Op, "ctor:") {
		if a.Op != b.Op {
			return False
		}
		var cs []*Term
		for i := range a.Args {
			cs = append(cs, Eq(a.Args[i], b.Args[i]))
		}
		return And(cs...)
	}
	// distribute over ite when the other side is a constant/ctor (keeps dispatch static)
	if a.Op == "ite" && (b.IsConst() || strings.HasPrefix(b.Op, "ctor:")) {
		return Ite(a.Args[0], Eq(a.Args[1], b), Eq(a.Args[2], b))
	}
	if b.Op == "ite" && (a.IsConst() || strings.HasPrefix(a.Op, "ctor:")) {
		return Ite(b.Args[0], Eq(a, b.Args[1]), Eq(a, b.Args[2]))
	}
	if a.id > b.id {
		a, b = b, a
	}
	return mk("=", BoolS, a, b)
}

func Neq(a, b *Term) *Term { return Not(Eq(a, b)) }

// ---- integers ----

func Add(a, b *Term) *Term {
	if a.Op == "int" && b.Op == "int" {
		return BigT(new(big.Int).Add(a.IVal, b.IVal))
	}
	if a.Op == "int" {
		a, b = b, a
	}
	if b.Op == "int" {
		if b.IVal.Sign() == 0 {
			return a
		}
		if a.Op == "+" && len(a.Args) == 2 && a.Args[1].Op == "int" {
			return Add(a.Args[0], BigT(new(big.Int).Add(a.Args[1].IVal, b.IVal)))
		}
	}
	if a.Op == "ite" && b.Op == "int" && a.Args[1].Op == "int" && a.Args[2].Op == "int" {
		return Ite(a.Args[0], Add(a.Args[1], b), Add(a.Args[2], b))
	}
	return mk("+", IntS, a, b)
}
func Neg(a *Term) *Term {
	if a.Op == "int" {
		return BigT(new(big.Int).Neg(a.IVal))
	}
	return mk("-", IntS, a)
}
func Sub(a, b *Term) *Term {
	if b.Op == "int" {
		return Add(a, BigT(new(big.Int).Neg(b.IVal)))
	}
	if a == b {
		return IntT(0)
	}
	ba, ka := linForm(a)
	bb, kb := linForm(b)
	if ba == bb {
		return BigT(new(big.Int).Sub(ka, kb))
	}
	return mk("-", IntS, a, b)
}
func Mul(a, b *Term) *Term {
	if a.Op == "int" && b.Op == "int" {
		return BigT(new(big.Int).Mul(a.IVal, b.IVal))
	}
	if a.Op == "int" {
		a, b = b, a
	}
	if b.Op == "int" && b.IVal.Cmp(big.NewInt(1)) == 0 {
		return a
	}
	if b.Op == "int" && b.IVal.Sign() == 0 {
		return IntT(0)
	}
	return mk("*", IntS, a, b)
}

// Go-style truncated division / remainder are built by the executor from these
// euclidean (SMT-LIB) primitives.
func DivE(a, b *Term) *Term {
	if a.Op == "int" && b.Op == "int" && b.IVal.Sign() != 0 {
		q := new(big.Int)
		m := new(big.Int)
		q.DivMod(a.IVal, b.IVal, m) // euclidean
		return BigT(q)
	}
	return mk("div", IntS, a, b)
}
func ModE(a, b *Term) *Term {
	if a.Op == "int" && b.Op == "int" && b.IVal.Sign() != 0 {
		q := new(big.Int)
		m := new(big.Int)
		q.DivMod(a.IVal, b.IVal, m)
		return BigT(m)
	}
	return mk("mod", IntS, a, b)
}

// intBounds computes syntactic bounds of small integer terms (sums of ites of constants).
func intBounds(t *Term, d int) (lo, hi *big.Int, ok bool) {
	if d > 12 {
		return nil, nil, false
	}
	switch t.Op {
	case "int":
		return t.IVal, t.IVal, true
	case "ite":
		l1, h1, ok1 := intBounds(t.Args[1], d+1)
		l2, h2, ok2 := intBounds(t.Args[2], d+1)
		if !ok1 || !ok2 {
			return nil, nil, false
		}
		lo, hi = l1, h1
		if l2.Cmp(lo) < 0 {
			lo = l2
		}
		if h2.Cmp(hi) > 0 {
			hi = h2
		}
		return lo, hi, true
	case "+":
		lo, hi = big.NewInt(0), big.NewInt(0)
		for _, a := range t.Args {
			l, h, ok := intBounds(a, d+1)
			if !ok {
				return nil, nil, false
			}
			lo = new(big.Int).Add(lo, l)
			hi = new(big.Int).Add(hi, h)
		}
		return lo, hi, true
	}
	return nil, nil, false
}

func boundsDecide(a, b *Term, strict bool) *Term {
	if (a.Op != "int" && a.Op != "ite" && a.Op != "+") || (b.Op != "int" && b.Op != "ite" && b.Op != "+") {
		return nil
	}
	la, ha, ok1 := intBounds(a, 0)
	lb, hb, ok2 := intBounds(b, 0)
	if !ok1 || !ok2 {
		return nil
	}
	if strict {
		if ha.Cmp(lb) < 0 {
			return True
		}
		if la.Cmp(hb) >= 0 {
			return False
		}
	} else {
		if ha.Cmp(lb) <= 0 {
			return True
		}
		if la.Cmp(hb) > 0 {
			return False
		}
	}
	return nil
}

func Lt(a, b *Term) *Term {
	if a.Op == "int" && b.Op == "int" {
		return BoolT(a.IVal.Cmp(b.IVal) < 0)
	}
	if r := boundsDecide(a, b, true); r != nil {
		return r
	}
	ba, ka := linForm(a)
	bb, kb := linForm(b)
	if ba == bb {
		return BoolT(ka.Cmp(kb) < 0)
	}
	if knownGreater(b, a) {
		return True
	}
	if knownGreater(a, b) {
		return False
	}
	return mk("<", BoolS, a, b)
}
func Le(a, b *Term) *Term {
	if a.Op == "int" && b.Op == "int" {
		return BoolT(a.IVal.Cmp(b.IVal) <= 0)
	}
	if r := boundsDecide(a, b, false); r != nil {
		return r
	}
	ba, ka := linForm(a)
	bb, kb := linForm(b)
	if ba == bb {
		return BoolT(ka.Cmp(kb) <= 0)
	}
	if knownGreater(b, a) {
		return True
	}
	if knownGreater(a, b) {
		return False
	}
	return mk("<=", BoolS, a, b)
}
func Gt(a, b *Term) *Term { return Lt(b, a) }
func Ge(a, b *Term) *Term { return Le(b, a) }

// ---- strings ----

func Concat(xs ...*Term) *Term {
	var out []*Term
	for _, x := range xs {
		var parts []*Term
		if x.Op == "str.++" {
			parts = x.Args
		} else {
			parts = []*Term{x}
		}
		for _, p := range parts {
			if p.Op == "str" && p.SVal == "" {
				continue
			}
			if p.Op == "str" && len(out) > 0 && out[len(out)-1].Op == "str" {
				out[len(out)-1] = StrT(out[len(out)-1].SVal + p.SVal)
				continue
			}
			out = append(out, p)
		}
	}
	if len(out) == 0 {
		return StrT("")
	}
	if len(out) == 1 {
		return out[0]
	}
	return mk("str.++", StringS, out...)
}
func StrLen(a *Term) *Term {
	if a.Op == "str" {
		return IntT(int64(len(a.SVal)))
	}
	return mk("str.len", IntS, a)
}
func StrLt(a, b *Term) *Term {
	if a.Op == "str" && b.Op == "str" {
		return BoolT(a.SVal < b.SVal)
	}
	return mk("str.<", BoolS, a, b)
}
func concatParts(t *Term) []*Term {
	if t.Op == "str.++" {
		return t.Args
	}
	return []*Term{t}
}

func StrPrefixOf(p, s *Term) *Term {
	if p.Op == "str" && s.Op == "str" {
		return BoolT(strings.HasPrefix(s.SVal, p.SVal))
	}
	if p.Op == "str" && p.SVal == "" {
		return True
	}
	if p == s {
		return True
	}
	// strip structurally equal leading parts
	pp, sp := concatParts(p), concatParts(s)
	k := 0
	for k < len(pp) && k < len(sp) && pp[k] == sp[k] {
		k++
	}
	if k > 0 {
		return StrPrefixOf(Concat(pp[k:]...), Concat(sp[k:]...))
	}
	return mk("str.prefixof", BoolS, p, s)
}
func StrSuffixOf(p, s *Term) *Term {
	if p.Op == "str" && s.Op == "str" {
		return BoolT(strings.HasSuffix(s.SVal, p.SVal))
	}
	if p.Op == "str" && p.SVal == "" {
		return True
	}
	if p == s {
		return True
	}
	// strip structurally equal trailing parts (and a common constant tail)
	pp, sp := concatParts(p), concatParts(s)
	k := 0
	for k < len(pp) && k < len(sp) && pp[len(pp)-1-k] == sp[len(sp)-1-k] {
		k++
	}
	if k > 0 {
		return StrSuffixOf(Concat(pp[:len(pp)-k]...), Concat(sp[:len(sp)-k]...))
	}
	if len(pp) > 0 && len(sp) > 0 {
		a, b := pp[len(pp)-1], sp[len(sp)-1]
		if a.Op == "str" && b.Op == "str" && a != b {
			n := 0
			for n < len(a.SVal) && n < len(b.SVal) && a.SVal[len(a.SVal)-1-n] == b.SVal[len(b.SVal)-1-n] {
				n++
			}
			if n < len(a.SVal) && n < len(b.SVal) {
				return False // the constant tails differ
			}
			if n > 0 {
				na := append(append([]*Term{}, pp[:len(pp)-1]...), StrT(a.SVal[:len(a.SVal)-n]))
				nb := append(append([]*Term{}, sp[:len(sp)-1]...), StrT(b.SVal[:len(b.SVal)-n]))
				return StrSuffixOf(Concat(na...), Concat(nb...))
			}
		}
	}
	return mk("str.suffixof", BoolS, p, s)
}
func StrContains(s, sub *Term) *Term {
	if sub.Op == "str" && s.Op == "str" {
		return BoolT(strings.Contains(s.SVal, sub.SVal))
	}
	return mk("str.contains", BoolS, s, sub)
}
func StrSubstr(s, off, n *Term) *Term {
	if off.Op == "int" && off.IVal.Sign() == 0 && n.Op == "str.len" && n.Args[0] == s {
		return s
	}
	if s.Op == "str" && off.Op == "int" && n.Op == "int" {
		o, l := int(off.IVal.Int64()), int(n.IVal.Int64())
		if o >= 0 && l >= 0 && o <= len(s.SVal) {
			e := o + l
			if e > len(s.SVal) {
				e = len(s.SVal)
			}
			return StrT(s.SVal[o:e])
		}
	}
	return mk("str.substr", StringS, s, off, n)
}
func StrAt(s, i *Term) *Term   { return mk("str.at", StringS, s, i) }
func StrToCode(s *Term) *Term  { return mk("str.to_code", IntS, s) }
func StrFromInt(i *Term) *Term { return mk("str.from_int", StringS, i) }
func StrReplaceAll(s, a, b *Term) *Term {
	if s.Op == "str" && a.Op == "str" && b.Op == "str" && a.SVal != "" {
		return StrT(strings.ReplaceAll(s.SVal, a.SVal, b.SVal))
	}
	return mk("str.replace_all", StringS, s, a, b)
}
func StrIndexOf(s, sub, from *Term) *Term { return mk("str.indexof", IntS, s, sub, from) }

// ---- arrays ----

var selectCache = map[[2]int]*Term{}

func Select(a, i *Term) *Term {
	k := [2]int{a.id, i.id}
	if r, ok := selectCache[k]; ok {
		return r
	}
	r := select1(a, i)
	selectCache[k] = r
	return r
}

// frozenBelow records, for a havocked heap component (a fresh array symbol),
// the component it replaced and an allocation bound: cells of objects older
// than the bound are unchanged (the loop only wrote objects it allocated).
type frozen struct {
	old   *Term
	bound *Term
}

var frozenBelow = map[int]frozen{}

func select1(a, i *Term) *Term {
	if a.Op == "sym" && i.Sort == LocS {
		if fb, ok := frozenBelow[a.id]; ok {
			obj := LocObj(i)
			if knownGreater(fb.bound, obj) {
				return Select(fb.old, i)
			}
		}
	}
	if a.Sort.Kind != "array" {
		panic("select on " + a.Sort.Name)
	}
	if i.Sort != a.Sort.Key {
		panic(fmt.Sprintf("select key sort %s want %s", i.Sort.Name, a.Sort.Key.Name))
	}
	switch a.Op {
	case "store":
		e := Eq(a.Args[1], i)
		if e.IsTrue() {
			return a.Args[2]
		}
		if e.IsFalse() {
			return Select(a.Args[0], i)
		}
		return Ite(e, a.Args[2], Select(a.Args[0], i))
	case "ite":
		return Ite(a.Args[0], Select(a.Args[1], i), Select(a.Args[2], i))
	case "constarr":
		return a.Args[0]
	}
	return mk("select", a.Sort.Val, a, i)
}
func Store(a, i, v *Term) *Term {
	if v.Sort != a.Sort.Val {
		panic(fmt.Sprintf("store val sort %s want %s", v.Sort.Name, a.Sort.Val.Name))
	}
	if i.Sort != a.Sort.Key {
		panic(fmt.Sprintf("store key sort %s want %s", i.Sort.Name, a.Sort.Key.Name))
	}
	if a.Op == "store" && a.Args[1] == i {
		return Store(a.Args[0], i, v)
	}
	return mk("store", a.Sort, a, i, v)
}
func ConstArr(s *Sort, v *Term) *Term { return mk("constarr", s, v) }

// ---- datatypes ----

func Ctor(s *Sort, name string, args ...*Term) *Term {
	return mk("ctor:"+name, s, args...)
}
func ctorIndex(s *Sort, name string) (int, *CtorDef) {
	for i := range s.DT.Ctors {
		if s.DT.Ctors[i].Name == name {
			return i, &s.DT.Ctors[i]
		}
	}
	panic("no ctor " + name + " in " + s.Name)
}

type selKey struct {
	id    int
	field string
}

var selCache = map[selKey]*Term{}

// Sel applies the selector `field` of constructor `ctor` of sort s.
func Sel(s *Sort, ctor, field string, t *Term) *Term {
	if t.Sort != s {
		panic(fmt.Sprintf("sel %s on %s", field, t.Sort.Name))
	}
	_, c := ctorIndex(s, ctor)
	fi := -1
	for i, f := range c.Fields {
		if f.Name == field {
			fi = i
		}
	}
	if fi < 0 {
		panic("no field " + field)
	}
	if t.Op == "ctor:"+ctor {
		return t.Args[fi]
	}
	if t.Op == "ite" {
		k := selKey{t.id, field}
		if r, ok := selCache[k]; ok {
			return r
		}
		r := Ite(t.Args[0], Sel(s, ctor, field, t.Args[1]), Sel(s, ctor, field, t.Args[2]))
		selCache[k] = r
		return r
	}
	return mk("sel:"+field, c.Fields[fi].Sort, t)
}
func IsCtor(s *Sort, ctor string, t *Term) *Term {
	if strings.HasPrefix(t.Op, "ctor:") {
		return BoolT(t.Op == "ctor:"+ctor)
	}
	if t.Op == "ite" {
		return Ite(t.Args[0], IsCtor(s, ctor, t.Args[1]), IsCtor(s, ctor, t.Args[2]))
	}
	return mk("is:"+ctor, BoolS, t)
}

// convenience for the fixed sorts
func MkLoc(obj, path *Term) *Term { return Ctor(LocS, "mkloc", obj, path) }
func LocObj(l *Term) *Term        { return Sel(LocS, "mkloc", "obj", l) }
func LocPath(l *Term) *Term       { return Sel(LocS, "mkloc", "path", l) }

var PNil = afterSorts(func() *Term { return Ctor(PathS, "pnil") })
var NilLoc = afterSorts(func() *Term { return MkLoc(IntT(0), PNil) })

func PFld(rest *Term, k int) *Term { return Ctor(PathS, "pfld", rest, IntT(int64(k))) }
func PElem(rest, i *Term) *Term    { return Ctor(PathS, "pelem", rest, i) }
func FieldLoc(l *Term, k int) *Term {
	return MkLoc(LocObj(l), PFld(LocPath(l), k))
}
func ElemLoc(l, i *Term) *Term { return MkLoc(LocObj(l), PElem(LocPath(l), i)) }

func MkSlice(base, off, ln, cp *Term) *Term { return Ctor(SliceS, "mkslice", base, off, ln, cp) }
func SliceBase(s *Term) *Term               { return Sel(SliceS, "mkslice", "sbase", s) }
func SliceOff(s *Term) *Term                { return Sel(SliceS, "mkslice", "soff", s) }
func SliceLen(s *Term) *Term                { return Sel(SliceS, "mkslice", "slen", s) }
func SliceCap(s *Term) *Term                { return Sel(SliceS, "mkslice", "scap", s) }

var NilSlice = afterSorts(func() *Term { return MkSlice(NilLoc, IntT(0), IntT(0), IntT(0)) })

func MkIface(tag, val *Term) *Term { return Ctor(IfaceS, "mkiface", tag, val) }
func IfaceTag(i *Term) *Term       { return Sel(IfaceS, "mkiface", "itag", i) }
func IfaceVal(i *Term) *Term       { return Sel(IfaceS, "mkiface", "ival", i) }

var ANil = afterSorts(func() *Term { return Ctor(AnyS, "a_nil") })
var NilIface = afterSorts(func() *Term { return MkIface(IntT(0), ANil) })

func Forall(bound []*Term, body *Term) *Term {
	if body.IsTrue() {
		return True
	}
	termCount++
	return &Term{Op: "forall", Sort: BoolS, Args: []*Term{body}, Bound: bound, id: termCount, hasBound: false}
}

// ---- printing ----

func smtString(s string) string {
	var sb strings.Builder
	sb.WriteByte('"')
	for i := 0; i < len(s); i++ {
		c := s[i]
		switch {
		case c == '"':
			sb.WriteString(`""`)
		case c == '\\':
			sb.WriteString(`\u{5c}`)
		case c >= 0x20 && c < 0x7f:
			sb.WriteByte(c)
		default:
			fmt.Fprintf(&sb, `\u{%x}`, c)
		}
	}
	sb.WriteByte('"')
	return sb.String()
}

func symName(s string) string { return "|" + strings.ReplaceAll(s, "|", "_") + "|" }

type smtPrinter struct {
	names   map[int]string // shared subterm -> name
	defs    []string       // emitted define-funs in order
	syms    map[string]*Sort
	ufs     map[string]*UF
	sorts   map[string]*Sort
	uses    map[int]int
	visited map[int]bool
}

func newPrinter() *smtPrinter {
	return &smtPrinter{names: map[int]string{}, syms: map[string]*Sort{}, ufs: map[string]*UF{}, sorts: map[string]*Sort{}, uses: map[int]int{}, visited: map[int]bool{}}
}

func (p *smtPrinter) noteSort(s *Sort) {
	if s == nil || p.sorts[s.Name] != nil {
		return
	}
	p.sorts[s.Name] = s
	if s.Kind == "array" {
		p.noteSort(s.Key)
		p.noteSort(s.Val)
	}
	if s.Kind == "dt" {
		for _, c := range s.DT.Ctors {
			for _, f := range c.Fields {
				if f.Sort != s {
					p.noteSort(f.Sort)
				}
			}
		}
	}
}

func (p *smtPrinter) count(t *Term) {
	p.uses[t.id]++
	if p.uses[t.id] > 1 {
		return
	}
	p.noteSort(t.Sort)
	switch {
	case t.Op == "sym":
		p.syms[t.SVal] = t.Sort
	case strings.HasPrefix(t.Op, "uf:"):
		p.ufs[t.Op[3:]] = ufTable[t.Op[3:]]
	case t.Op == "bvar":
		return
	case t.Op == "forall":
		for _, b := range t.Bound {
			p.noteSort(b.Sort)
		}
	}
	for _, a := range t.Args {
		p.count(a)
	}
}

func (p *smtPrinter) expr(t *Term) string {
	if n, ok := p.names[t.id]; ok {
		return n
	}
	s := p.raw(t)
	// name shared, closed, non-trivial terms
	if p.uses[t.id] > 1 && !t.hasBound && len(t.Args) > 0 && len(s) > 24 {
		n := fmt.Sprintf("t%d", t.id)
		p.defs = append(p.defs, fmt.Sprintf("(define-fun %s () %s %s)", n, t.Sort.Name, s))
		p.names[t.id] = n
		return n
	}
	return s
}

func (p *smtPrinter) raw(t *Term) string {
	switch t.Op {
	case "bool":
		if t.BVal {
			return "true"
		}
		return "false"
	case "int":
		if t.IVal.Sign() < 0 {
			return "(- " + new(big.Int).Neg(t.IVal).String() + ")"
		}
		return t.IVal.String()
	case "str":
		return smtString(t.SVal)
	case "sym":
		return symName(t.SVal)
	case "bvar":
		return t.SVal
	case "forall":
		var bs []string
		for _, b := range t.Bound {
			bs = append(bs, "("+b.SVal+" "+b.Sort.Name+")")
		}
		return "(forall (" + strings.Join(bs, " ") + ") " + p.expr(t.Args[0]) + ")"
	case "constarr":
		return "((as const " + t.Sort.Name + ") " + p.expr(t.Args[0]) + ")"
	case "tuple":
		panic("tuple reached printer")
	}
	args := make([]string, len(t.Args))
	for i, a := range t.Args {
		args[i] = p.expr(a)
	}
	op := t.Op
	switch {
	case strings.HasPrefix(op, "uf:"):
		op = symName(op[3:])
	case strings.HasPrefix(op, "ctor:"):
		op = op[5:]
		if len(args) == 0 {
			if len(t.Sort.DT.Ctors) > 0 {
				return "(as " + op + " " + t.Sort.Name + ")"
			}
			return op
		}
	case strings.HasPrefix(op, "sel:"):
		op = op[4:]
	case strings.HasPrefix(op, "is:"):
		op = "(_ is " + op[3:] + ")"
	case op == "-" && len(args) == 1:
		op = "-"
	}
	if len(args) == 0 {
		return op
	}
	return "(" + op + " " + strings.Join(args, " ") + ")"
}

// sortDecls returns datatype declarations in dependency order.
func (p *smtPrinter) sortDecls() []string {
	var order []*Sort
	done := map[string]bool{}
	var visit func(s *Sort)
	visit = func(s *Sort) {
		if s == nil || done[s.Name] {
			return
		}
		done[s.Name] = true
		if s.Kind == "array" {
			visit(s.Key)
			visit(s.Val)
			return
		}
		if s.Kind != "dt" {
			return
		}
		for _, c := range s.DT.Ctors {
			for _, f := range c.Fields {
				if f.Sort != s {
					visit(f.Sort)
				}
			}
		}
		order = append(order, s)
	}
	var names []string
	for n := range p.sorts {
		names = append(names, n)
	}
	sort.Strings(names)
	for _, n := range names {
		visit(p.sorts[n])
	}
	var out []string
	for _, s := range order {
		var cs []string
		for _, c := range s.DT.Ctors {
			if len(c.Fields) == 0 {
				cs = append(cs, "("+c.Name+")")
				continue
			}
			var fs []string
			for _, f := range c.Fields {
				fs = append(fs, "("+f.Name+" "+f.Sort.Name+")")
			}
			cs = append(cs, "("+c.Name+" "+strings.Join(fs, " ")+")")
		}
		out = append(out, fmt.Sprintf("(declare-datatypes ((%s 0)) ((%s)))", s.Name, strings.Join(cs, " ")))
	}
	return out
}

// Script renders a complete query: assert all `asserts`, check-sat.
func Script(asserts []*Term, wantModel bool, modelTerms []*Term) string {
	p := newPrinter()
	for _, a := range asserts {
		p.count(a)
	}
	for _, m := range modelTerms {
		p.count(m)
	}
	var body []string
	for _, a := range asserts {
		e := p.expr(a)
		body = append(body, p.defs...)
		p.defs = nil
		body = append(body, "(assert "+e+")")
	}
	var mexprs []string
	for _, m := range modelTerms {
		e := p.expr(m)
		body = append(body, p.defs...)
		p.defs = nil
		mexprs = append(mexprs, e)
	}
	var sb strings.Builder
	if wantModel {
		sb.WriteString("(set-option :produce-models true)\n")
	}
	sb.WriteString("(set-logic ALL)\n")
	for _, d := range p.sortDecls() {
		sb.WriteString(d + "\n")
	}
	var sn []string
	for n := range p.syms {
		sn = append(sn, n)
	}
	sort.Strings(sn)
	for _, n := range sn {
		fmt.Fprintf(&sb, "(declare-fun %s () %s)\n", symName(n), p.syms[n].Name)
	}
	var un []string
	for n := range p.ufs {
		un = append(un, n)
	}
	sort.Strings(un)
	for _, n := range un {
		u := p.ufs[n]
		var as []string
		for _, a := range u.Args {
			as = append(as, a.Name)
		}
		fmt.Fprintf(&sb, "(declare-fun %s (%s) %s)\n", symName(n), strings.Join(as, " "), u.Res.Name)
	}
	for _, b := range body {
		sb.WriteString(b + "\n")
	}
	sb.WriteString("(check-sat)\n")
	if wantModel && len(mexprs) > 0 {
		sb.WriteString("(get-value (" + strings.Join(mexprs, " ") + "))\n")
	}
	return sb.String()
}

// Symbols collects free symbols of a term (for cone-of-influence pruning).
func Symbols(t *Term, into map[string]bool, seen map[int]bool) {
	if seen[t.id] {
		return
	}
	seen[t.id] = true
	if t.Op == "sym" {
		into[t.SVal] = true
	}
	if strings.HasPrefix(t.Op, "uf:") {
		into["uf:"+t.Op[3:]] = true
	}
	for _, a := range t.Args {
		Symbols(a, into, seen)
	}
}

// Restrict simplifies t under the assumption that every conjunct of `pc`
// holds: ite nodes whose condition (or its negation) is such a conjunct are
// resolved.  Purely syntactic; sound because it only uses pc.
func Restrict(t *Term, pc *Term) *Term {
	facts := map[int]bool{}
	negFacts := map[int]bool{}
	for _, c := range conj(pc) {
		facts[c.id] = true
	}
	if len(facts) == 0 {
		return t
	}
	// not(and(x1..xn)) with some xi known: the remaining conjunction is false
	for pass := 0; pass < 2; pass++ {
		for _, c := range conj(pc) {
			if c.Op != "not" || c.Args[0].Op != "and" {
				continue
			}
			var rest []*Term
			for _, x := range c.Args[0].Args {
				if !facts[x.id] {
					rest = append(rest, x)
				}
			}
			if len(rest) > 0 && len(rest) < len(c.Args[0].Args) {
				facts[Not(And(rest...)).id] = true
				negFacts[And(rest...).id] = true
			}
		}
	}
	for _, c := range conj(pc) {
		if c.Op == "not" {
			negFacts[c.Args[0].id] = true
		}
	}
	memo := map[int]*Term{}
	// equalities with a constant side substitute the other side
	eqSubst := map[int]*Term{}
	for _, c := range conj(pc) {
		if c.Op == "=" && len(c.Args) == 2 {
			if c.Args[0].IsConst() && !c.Args[1].IsConst() {
				eqSubst[c.Args[1].id] = c.Args[0]
			} else if c.Args[1].IsConst() && !c.Args[0].IsConst() {
				eqSubst[c.Args[0].id] = c.Args[1]
			}
		}
	}
	var truth func(c *Term) int // 1 true, -1 false, 0 unknown
	truth = func(c *Term) int {
		if c.IsTrue() {
			return 1
		}
		if c.IsFalse() {
			return -1
		}
		if facts[c.id] {
			return 1
		}
		if c.Op == "not" {
			return -truth(c.Args[0])
		}
		if negFacts[c.id] {
			return -1
		}
		if c.Op == "and" {
			all := 1
			for _, a := range c.Args {
				switch truth(a) {
				case -1:
					return -1
				case 0:
					all = 0
				}
			}
			return all
		}
		if c.Op == "or" {
			all := -1
			for _, a := range c.Args {
				switch truth(a) {
				case 1:
					return 1
				case 0:
					all = 0
				}
			}
			return all
		}
		return 0
	}
	var rec func(t *Term, d int) *Term
	rec = func(t *Term, d int) *Term {
		if v, ok := eqSubst[t.id]; ok {
			return v
		}
		if d > 60 || t.IsConst() || t.Op == "sym" || len(t.Args) == 0 {
			return t
		}
		if r, ok := memo[t.id]; ok {
			return r
		}
		if v, ok := eqSubst[t.id]; ok {
			return v
		}
		if t.Sort == BoolS {
			switch truth(t) {
			case 1:
				memo[t.id] = True
				return True
			case -1:
				memo[t.id] = False
				return False
			}
		}
		var r *Term
		switch {
		case t.Op == "ite":
			switch truth(t.Args[0]) {
			case 1:
				r = rec(t.Args[1], d+1)
			case -1:
				r = rec(t.Args[2], d+1)
			default:
				r = Ite(t.Args[0], rec(t.Args[1], d+1), rec(t.Args[2], d+1))
			}
		case strings.HasPrefix(t.Op, "ctor:"):
			args := make([]*Term, len(t.Args))
			ch := false
			for i, a := range t.Args {
				args[i] = rec(a, d+1)
				ch = ch || args[i] != a
			}
			if ch {
				r = mk(t.Op, t.Sort, args...)
			} else {
				r = t
			}
		case t.Sort.Kind == "array" || t.Op == "select" || t.Op == "store":
			r = t // heaps are not searched for decided conditions
		case t.Op != "forall" && t.Op != "exists" && t.Op != "tuple" && len(t.Bound) == 0 && len(t.Elems) == 0:
			args := make([]*Term, len(t.Args))
			ch := false
			for i, a := range t.Args {
				args[i] = rec(a, d+1)
				ch = ch || args[i] != a
			}
			switch {
			case !ch:
				r = t
			case t.Op == "=":
				r = Eq(args[0], args[1])
			case t.Op == "str.++":
				r = Concat(args...)
			case t.Op == "and":
				r = And(args...)
			case t.Op == "or":
				r = Or(args...)
			case t.Op == "not":
				r = Not(args[0])
			case t.Op == "str.prefixof":
				r = StrPrefixOf(args[0], args[1])
			case t.Op == "str.suffixof":
				r = StrSuffixOf(args[0], args[1])
			case t.Op == "str.len":
				r = StrLen(args[0])
			case t.Op == "select":
				r = Select(args[0], args[1])
			case t.Op == "uf:elemIndex":
				r = ElemIndex(args[0], args[1])
			case t.Op == "str.substr" && len(args) == 3:
				r = StrSubstr(args[0], args[1], args[2])
			default:
				r = mk(t.Op, t.Sort, args...)
			}
		default:
			r = t
		}
		memo[t.id] = r
		return r
	}
	return rec(t, 0)
}

// ElemIndex is the backing-array index of element i of a slice with offset
// off.  With a symbolic offset it is an uninterpreted function (defined by
// the axiom elemIndex(o,i) = o+i, added to every query that mentions it) so
// that quantifier patterns over slice elements contain no arithmetic.
var elemIndexUF = DeclUF("elemIndex", IntS, IntS, IntS)

func ElemIndex(off, i *Term) *Term {
	if off.Op == "int" {
		return Add(off, i)
	}
	if i.Op == "int" && i.IVal.Sign() == 0 {
		return off
	}
	return App(elemIndexUF, off, i)
}

func ElemIndexAxiom() *Term {
	o, i := BoundVar(IntS), BoundVar(IntS)
	return Forall([]*Term{o, i}, Eq(App(elemIndexUF, o, i), Add(o, i)))
}

// RestrictGoal simplifies a goal under its path condition; an implication is
// simplified under its own premise as well (and the path condition is first
// simplified under that premise, which exposes more facts).
func RestrictGoal(g, pc *Term) *Term {
	if g.Op == "or" && len(g.Args) >= 2 {
		n := len(g.Args)
		var prem []*Term
		for _, a := range g.Args[:n-1] {
			prem = append(prem, Not(a))
		}
		p := And(prem...)
		pc2 := Restrict(pc, p)
		facts := And(p, pc2)
		concl := Restrict(g.Args[n-1], facts)
		concl = Restrict(concl, facts)
		return Implies(p, concl)
	}
	return Restrict(g, pc)
}
