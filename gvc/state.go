package main

import (
	"fmt"
	"go/types"
	"math/big"
	"sort"
	"strings"

	"golang.org/x/tools/go/ssa"
)

// State is the symbolic machine state at a program point: heap/ghost
// components and the SSA environment of the current frame.
type State struct {
	comps map[string]*Term
	vals  map[ssa.Value]*Term
}

func newState() *State {
	return &State{comps: map[string]*Term{}, vals: map[ssa.Value]*Term{}}
}

func (s *State) clone() *State {
	n := &State{comps: make(map[string]*Term, len(s.comps)), vals: make(map[ssa.Value]*Term, len(s.vals))}
	for k, v := range s.comps {
		n.comps[k] = v
	}
	for k, v := range s.vals {
		n.vals[k] = v
	}
	return n
}

// withVals returns a copy of s that uses another SSA environment (callee frame).
func (s *State) withVals(v map[ssa.Value]*Term) *State {
	n := &State{comps: make(map[string]*Term, len(s.comps)), vals: v}
	for k, c := range s.comps {
		n.comps[k] = c
	}
	return n
}

type edge struct {
	pc   *Term
	st   *State
	from *ssa.BasicBlock
}

// ---- components ----

func (e *Engine) compSortOf(name string) *Sort {
	s, ok := e.compSorts[name]
	if !ok {
		panic("undeclared component " + name)
	}
	return s
}

func (e *Engine) declComp(name string, s *Sort) {
	if old, ok := e.compSorts[name]; ok {
		if old != s {
			panic(fmt.Sprintf("component %s redeclared with sort %s (was %s)", name, s.Name, old.Name))
		}
		return
	}
	e.compSorts[name] = s
}

func (e *Engine) comp(st *State, name string) *Term {
	if t, ok := st.comps[name]; ok {
		return t
	}
	if t, ok := e.initComps[name]; ok {
		return t
	}
	if e.inInit {
		// during package initialisation all memory is zero
		return zeroArray(e.compSortOf(name))
	}
	return Sym("0:"+name, e.compSortOf(name))
}

func (e *Engine) setComp(st *State, name string, t *Term) {
	if e.dirty != nil {
		e.dirty[name] = true
	}
	st.comps[name] = t
}

// leaf component for a scalar at a location reached through a typed access.
// how: "field" (owner,k), "elem", "cell"
func (e *Engine) leafComp(name string, t types.Type) string {
	e.declComp(name, ArrayOf(LocS, e.tr.sortOf(t)))
	return name
}

// ---- typed memory access ----

// loadAt loads a value of Go type t from location l, whose component for
// scalars is `comp` (ignored for structs, whose fields have own components).
func (e *Engine) loadAt(st *State, t types.Type, l *Term, comp string) *Term {
	if stt, ok := isStructVal(t); ok {
		s := e.tr.structSort(t, stt)
		args := make([]*Term, stt.NumFields())
		for i := 0; i < stt.NumFields(); i++ {
			ft := stt.Field(i).Type()
			fl := MkLoc(LocObj(l), PFld(LocPath(l), e.tr.gid(t, i)))
			args[i] = e.loadAt(st, ft, fl, compField(t, i))
		}
		return Ctor(s, s.DT.Ctors[0].Name, args...)
	}
	if at, ok := t.Underlying().(*types.Array); ok && !isByte(at.Elem()) {
		// array value: view over the memory itself
		return MkSlice(l, IntT(0), IntT(at.Len()), IntT(at.Len()))
	}
	e.leafComp(comp, t)
	v := Select(e.comp(st, comp), l)
	e.noteLoaded(st, t, v)
	return v
}

func (e *Engine) storeAt(st *State, t types.Type, l *Term, comp string, v *Term) {
	if stt, ok := isStructVal(t); ok {
		s := e.tr.structSort(t, stt)
		for i := 0; i < stt.NumFields(); i++ {
			ft := stt.Field(i).Type()
			fl := MkLoc(LocObj(l), PFld(LocPath(l), e.tr.gid(t, i)))
			fv := Sel(s, s.DT.Ctors[0].Name, s.DT.Ctors[0].Fields[i].Name, v)
			e.storeAt(st, ft, fl, compField(t, i), fv)
		}
		return
	}
	if at, ok := t.Underlying().(*types.Array); ok && !isByte(at.Elem()) {
		// copy element-wise for small arrays
		if at.Len() > 8 {
			panic(outsideSubset("store of large array value"))
		}
		for i := int64(0); i < at.Len(); i++ {
			src := ElemLoc(SliceBase(v), ElemIndex(SliceOff(v), IntT(i)))
			ev := e.loadAt(st, at.Elem(), src, compElem(at.Elem()))
			e.storeAt(st, at.Elem(), ElemLoc(l, IntT(i)), compElem(at.Elem()), ev)
		}
		return
	}
	e.leafComp(comp, t)
	e.noteStoreTarget(comp, l)
	e.setComp(st, comp, Store(e.comp(st, comp), l, v))
}

// noteStoreTarget records, during loop discovery, whether a heap component is
// written at a location that may belong to an object older than the loop.
func (e *Engine) noteStoreTarget(comp string, l *Term) {
	for _, d := range e.discovery {
		obj := LocObj(l)
		if obj == d.base || knownGreater(obj, d.base) {
			continue
		}
		b1, k1 := linForm(obj)
		b2, k2 := linForm(d.base)
		if b1 == b2 && k1.Cmp(k2) >= 0 {
			continue
		}
		d.oldWrites[comp] = true
	}
}

type discoveryLevel struct {
	base      *Term
	oldWrites map[string]bool
}

// componentOfLoc recovers the scalar component of a location from its syntax.
func (e *Engine) componentOfLoc(l *Term, t types.Type) string {
	p := LocPath(l)
	switch p.Op {
	case "ctor:pfld":
		if p.Args[1].Op == "int" {
			if ge := e.tr.gidEntry(int(p.Args[1].IVal.Int64())); ge != nil {
				return compField(ge.Owner, ge.K)
			}
		}
	case "ctor:pelem":
		return compElem(t)
	case "ctor:pnil":
		return compCell(t)
	}
	// not syntactic: assume a standalone cell (documented aliasing assumption)
	e.note("assume-standalone-cell:" + typeKey(t))
	return compCell(t)
}

// load through a pointer value of static type *t.
func (e *Engine) loadPtr(st *State, t types.Type, p *Term) *Term {
	if p.Op == "ite" {
		return Ite(p.Args[0], e.loadPtr(st, t, p.Args[1]), e.loadPtr(st, t, p.Args[2]))
	}
	if _, ok := isStructVal(t); ok {
		return e.loadAt(st, t, p, "")
	}
	return e.loadAt(st, t, p, e.componentOfLoc(p, t))
}

func (e *Engine) storePtr(st *State, t types.Type, p *Term, v *Term, pc *Term) {
	if p.Op == "ite" {
		// store to either location, guarded
		c := p.Args[0]
		s1 := st.clone()
		e.storePtr(s1, t, p.Args[1], v, And(pc, c))
		s2 := st.clone()
		e.storePtr(s2, t, p.Args[2], v, And(pc, Not(c)))
		m := e.mergeStates([]edge{{pc: c, st: s1}, {pc: Not(c), st: s2}})
		st.comps = m.comps
		return
	}
	if _, ok := isStructVal(t); ok {
		e.storeAt(st, t, p, "", v)
		return
	}
	e.storeAt(st, t, p, e.componentOfLoc(p, t), v)
}

// noteLoaded adds well-formedness facts for values read from an input or
// havocked heap: pointers stored in pre-existing memory point to pre-existing
// objects.
func (e *Engine) noteLoaded(st *State, t types.Type, v *Term) {
	if v.Op == "ite" {
		// shared alternatives are visited once
		if e.loadedFacts[v.id] {
			return
		}
		e.loadedFacts[v.id] = true
		e.noteLoaded(st, t, v.Args[1])
		e.noteLoaded(st, t, v.Args[2])
		return
	}
	if v.Op != "select" || v.Args[0].Op != "sym" || e.alloc0 == nil {
		return
	}
	name := v.Args[0].SVal
	bound, ok := e.heapBound[name]
	isInput := strings.HasPrefix(name, "0:")
	if !ok {
		if !isInput {
			return
		}
		bound = e.alloc0
	}
	if e.loadedFacts[v.id] {
		return
	}
	e.loadedFacts[v.id] = true
	// the cell is meaningful only if its object existed when this heap was current
	lobj := LocObj(v.Args[1])
	g := Lt(lobj, bound)
	e.wellFormedValueIf(g, t, v, bound)
	if isInput {
		e.inputObjFactsIf(g, t, v)
	}
}

// ---- state merging ----

// relativize removes the conjuncts common to all edge conditions: merges
// only need to distinguish the incoming edges from each other.
func relativize(edges []edge) []edge {
	if len(edges) < 2 {
		return edges
	}
	common := map[int]bool{}
	for _, x := range conj(edges[0].pc) {
		common[x.id] = true
	}
	for _, ed := range edges[1:] {
		in := map[int]bool{}
		for _, x := range conj(ed.pc) {
			in[x.id] = true
		}
		for id := range common {
			if !in[id] {
				delete(common, id)
			}
		}
	}
	if len(common) == 0 {
		return edges
	}
	out := make([]edge, len(edges))
	for i, ed := range edges {
		var rest []*Term
		for _, x := range conj(ed.pc) {
			if !common[x.id] {
				rest = append(rest, x)
			}
		}
		out[i] = edge{pc: And(rest...), st: ed.st, from: ed.from}
	}
	return out
}

func (e *Engine) mergeStates(edges []edge) *State {
	if len(edges) == 1 {
		return edges[0].st.clone()
	}
	edges = relativize(edges)
	out := newState()
	keys := map[string]bool{}
	for _, ed := range edges {
		for k := range ed.st.comps {
			keys[k] = true
		}
	}
	var ks []string
	for k := range keys {
		ks = append(ks, k)
	}
	sort.Strings(ks)
	for _, k := range ks {
		if k == allocComp {
			out.comps[k] = e.mergeAlloc(edges)
			continue
		}
		var acc *Term
		for i := len(edges) - 1; i >= 0; i-- {
			v := e.comp(edges[i].st, k)
			if acc == nil {
				acc = v
			} else {
				acc = Ite(edges[i].pc, v, acc)
			}
		}
		out.comps[k] = acc
	}
	vkeys := map[ssa.Value]bool{}
	for _, ed := range edges {
		for k := range ed.st.vals {
			vkeys[k] = true
		}
	}
	for k := range vkeys {
		var acc *Term
		for i := len(edges) - 1; i >= 0; i-- {
			v, ok := edges[i].st.vals[k]
			if !ok {
				continue
			}
			if acc == nil {
				acc = v
			} else if v.Sort == acc.Sort && v.Op != "tuple" {
				acc = Ite(edges[i].pc, v, acc)
			} else if v.Op == "tuple" && acc.Op == "tuple" {
				acc = Ite(edges[i].pc, v, acc)
			}
		}
		if acc != nil {
			out.vals[k] = acc
		}
	}
	return out
}

// ---- allocation ----

const allocComp = "G:alloc"

func (e *Engine) newObj(st *State) *Term {
	e.declComp(allocComp, IntS)
	c := e.comp(st, allocComp)
	e.setComp(st, allocComp, Add(c, IntT(1)))
	return c
}

func (e *Engine) allocLoc(st *State) *Term {
	return MkLoc(e.newObj(st), PNil)
}

// initialise memory of a fresh object of type t at l with zero values.
func (e *Engine) zeroInit(st *State, t types.Type, l *Term) {
	if stt, ok := isStructVal(t); ok {
		for i := 0; i < stt.NumFields(); i++ {
			fl := MkLoc(LocObj(l), PFld(LocPath(l), e.tr.gid(t, i)))
			ft := stt.Field(i).Type()
			if _, ok := isStructVal(ft); ok {
				e.zeroInit(st, ft, fl)
			} else if at, ok := ft.Underlying().(*types.Array); ok && !isByte(at.Elem()) {
				e.zeroInitArray(st, at, fl)
			} else {
				e.storeAt(st, ft, fl, compField(t, i), e.tr.zero(ft))
			}
		}
		return
	}
	if at, ok := t.Underlying().(*types.Array); ok && !isByte(at.Elem()) {
		e.zeroInitArray(st, at, l)
		return
	}
	e.storeAt(st, t, l, compCell(t), e.tr.zero(t))
}

func (e *Engine) zeroInitArray(st *State, at *types.Array, l *Term) {
	if at.Len() > 16 {
		return // left unconstrained; large arrays are not used by the code in scope
	}
	for i := int64(0); i < at.Len(); i++ {
		el := ElemLoc(l, IntT(i))
		if _, ok := isStructVal(at.Elem()); ok {
			e.zeroInit(st, at.Elem(), el)
		} else {
			e.storeAt(st, at.Elem(), el, compElem(at.Elem()), e.tr.zero(at.Elem()))
		}
	}
}

// ---- ghost state helpers ----

func (e *Engine) ghostGet(st *State, name string, s *Sort, l *Term) *Term {
	n := "X:" + name
	e.declComp(n, ArrayOf(LocS, s))
	return Select(e.comp(st, n), l)
}
func (e *Engine) ghostSet(st *State, name string, s *Sort, l, v *Term) {
	n := "X:" + name
	e.declComp(n, ArrayOf(LocS, s))
	e.setComp(st, n, Store(e.comp(st, n), l, v))
}
func (e *Engine) flagGet(st *State, name string) *Term {
	n := "G:" + name
	e.declComp(n, BoolS)
	return e.comp(st, n)
}
func (e *Engine) flagSet(st *State, name string, v *Term) {
	n := "G:" + name
	e.declComp(n, BoolS)
	e.setComp(st, n, v)
}
func (e *Engine) globGet(st *State, name string, s *Sort) *Term {
	n := "G:" + name
	e.declComp(n, s)
	return e.comp(st, n)
}
func (e *Engine) globSet(st *State, name string, s *Sort, v *Term) {
	n := "G:" + name
	e.declComp(n, s)
	e.setComp(st, n, v)
}

// ---- maps ----

func (e *Engine) mapComps(mt *types.Map) (has, val, ln string) {
	k := shortTypeName(typeKey(mt))
	has, val, ln = "MH:"+k, "MV:"+k, "ML:"+k
	ks := e.tr.sortOf(mt.Key())
	e.declComp(has, ArrayOf(IntS, ArrayOf(ks, BoolS)))
	e.declComp(val, ArrayOf(IntS, ArrayOf(ks, e.tr.sortOf(mt.Elem()))))
	e.declComp(ln, ArrayOf(IntS, IntS))
	return
}

type outsideSubset string

func (o outsideSubset) Error() string { return "outside subset: " + string(o) }

func basicWidth(b *types.Basic) uint {
	switch b.Kind() {
	case types.Int8, types.Uint8:
		return 8
	case types.Int16, types.Uint16:
		return 16
	case types.Int32, types.Uint32:
		return 32
	case types.Int64, types.Uint64, types.Int, types.Uint, types.Uintptr:
		return 64
	}
	return 0
}

func shortFn(fn *ssa.Function) string {
	s := fn.String()
	s = strings.ReplaceAll(s, "github.com/goreleaser/nfpm/v2/", "")
	s = strings.ReplaceAll(s, "github.com/goreleaser/nfpm/v2", "nfpm")
	return s
}

func zeroOfSort(s *Sort) *Term {
	switch s {
	case BoolS:
		return False
	case IntS:
		return IntT(0)
	case StringS:
		return StrT("")
	case LocS:
		return NilLoc
	case SliceS:
		return NilSlice
	case IfaceS:
		return NilIface
	}
	if s.Kind == "array" {
		return zeroArray(s)
	}
	if s.Kind == "dt" && len(s.DT.Ctors) == 1 {
		args := make([]*Term, len(s.DT.Ctors[0].Fields))
		for i, f := range s.DT.Ctors[0].Fields {
			args[i] = zeroOfSort(f.Sort)
		}
		return Ctor(s, s.DT.Ctors[0].Name, args...)
	}
	panic("zeroOfSort " + s.Name)
}

func zeroArray(s *Sort) *Term {
	if s.Kind != "array" {
		return zeroOfSort(s)
	}
	return ConstArr(s, zeroOfSort(s.Val))
}

// rebase replaces the all-zero base of a store chain by an unknown array:
// after package initialisation only the cells that initialisation wrote are
// known, everything else is input.
func rebase(t *Term, base *Term) *Term {
	switch t.Op {
	case "store":
		return Store(rebase(t.Args[0], base), t.Args[1], t.Args[2])
	case "constarr":
		return base
	case "ite":
		return Ite(t.Args[0], rebase(t.Args[1], base), rebase(t.Args[2], base))
	}
	return t
}

// mergeAlloc: at a join the allocation counter becomes the maximum of the
// incoming counters, so that object ids stay free of path conditions.
func (e *Engine) mergeAlloc(edges []edge) *Term {
	var base *Term
	var maxK *big.Int
	same := true
	for i, ed := range edges {
		v := e.comp(ed.st, allocComp)
		b, k := linForm(v)
		if i == 0 {
			base, maxK = b, k
			continue
		}
		if b != base {
			same = false
			break
		}
		if k.Cmp(maxK) > 0 {
			maxK = k
		}
	}
	if same {
		if base == nil {
			return BigT(maxK)
		}
		return Add(base, BigT(maxK))
	}
	f := Fresh("allocj", IntS)
	for i, ed := range edges {
		e.axiom(Ge(f, e.comp(ed.st, allocComp)))
		if i == 0 {
			e.noteAllocGe(f, e.comp(ed.st, allocComp))
		}
	}
	return f
}
