package main

import (
	"fmt"
	"go/types"
	"path"

	"golang.org/x/tools/go/ssa"
)

func pathpkgClean(s string) string { return path.Clean(s) }
func dirPath(s string) string      { return path.Dir(s) }
func basePath(s string) string     { return path.Base(s) }

func (e *Engine) namedType(pkgPath, name string) types.Type {
	p := e.prog.ImportedPackage(pkgPath)
	if p == nil {
		panic("package not loaded: " + pkgPath)
	}
	o := p.Pkg.Scope().Lookup(name)
	if o == nil {
		panic("no " + name + " in " + pkgPath)
	}
	return o.Type()
}

// fieldByName returns location, component and type of a named struct field.
func (e *Engine) fieldByName(T types.Type, l *Term, name string) (*Term, string, types.Type) {
	st := T.Underlying().(*types.Struct)
	for i := 0; i < st.NumFields(); i++ {
		if st.Field(i).Name() == name {
			return e.fieldAddr(l, T, i), compField(T, i), st.Field(i).Type()
		}
	}
	panic("no field " + name + " in " + T.String())
}

func (e *Engine) getField(st *State, T types.Type, l *Term, name string) *Term {
	fl, comp, ft := e.fieldByName(T, l, name)
	return e.loadAt(st, ft, fl, comp)
}
func (e *Engine) setField(st *State, T types.Type, l *Term, name string, v *Term) {
	fl, comp, ft := e.fieldByName(T, l, name)
	e.storeAt(st, ft, fl, comp, v)
}

func (e *Engine) ifaceMethod(pkgPath, iface, method string) (types.Type, *types.Func) {
	T := e.namedType(pkgPath, iface)
	it := T.Underlying().(*types.Interface)
	for i := 0; i < it.NumMethods(); i++ {
		if it.Method(i).Name() == method {
			return T, it.Method(i)
		}
	}
	panic("no method " + method)
}

var (
	tInt    types.Type = types.Typ[types.Int]
	tString types.Type = types.Typ[types.String]
)

func errType() types.Type { return types.Universe.Lookup("error").Type() }

func tupleOf(ts ...types.Type) *types.Tuple {
	var vs []*types.Var
	for _, t := range ts {
		vs = append(vs, types.NewVar(0, nil, "", t))
	}
	return types.NewTuple(vs...)
}

// writeTo performs w.Write(data) on an io.Writer value by dynamic dispatch.
func (e *Engine) writeTo(c *CallCtx, w *Term, data *Term) (*Term, *Term) {
	T, m := e.ifaceMethod("io", "Writer", "Write")
	r, po := e.invoke(c.fr, c.instr, w, T, m, []*Term{data}, tupleOf(tInt, errType()), c.st, c.pc, c.label+".Write")
	c.pcOut = And(c.pcOut, po)
	if r == nil {
		return IntT(0), NilIface
	}
	return r.Elems[0], r.Elems[1]
}

func (e *Engine) closeOf(c *CallCtx, w *Term) *Term {
	T, m := e.ifaceMethod("io", "Closer", "Close")
	r, _ := e.invoke(c.fr, c.instr, w, T, m, nil, errType(), c.st, c.pc, c.label+".Close")
	return r
}

// drain reads a reader to its end: the bytes delivered and the error (nil at EOF).
func (e *Engine) drain(c *CallCtx, r *Term) (*Term, *Term) {
	cases := e.possibleTags(IfaceTag(r))
	var data, err *Term
	edges := []edge{}
	var datas, errs []*Term
	for _, tc := range cases {
		if tc.tag == 0 {
			continue
		}
		s2 := c.st.clone()
		sub := *c
		sub.st = s2
		sub.pc = And(c.pc, tc.cond)
		d, er := e.drainOne(&sub, r, tc.tag)
		edges = append(edges, edge{pc: tc.cond, st: s2})
		datas = append(datas, d)
		errs = append(errs, er)
	}
	if len(edges) == 0 {
		return StrT(""), NilIface
	}
	m := e.mergeStates(edges)
	c.st.comps = m.comps
	for i := len(edges) - 1; i >= 0; i-- {
		if data == nil {
			data, err = datas[i], errs[i]
		} else {
			data, err = Ite(edges[i].pc, datas[i], data), Ite(edges[i].pc, errs[i], err)
		}
	}
	return data, err
}

func (e *Engine) drainOne(c *CallCtx, r *Term, tag int) (*Term, *Term) {
	if tag < 0 {
		ok := c.nondet("extread")
		d := Fresh("extdata", StringS)
		return d, Ite(ok, NilIface, e.libErr("read"))
	}
	T := e.tr.typeOfTag(tag)
	key := e.objKey(r)
	switch T.String() {
	case "*os.File":
		p := e.ghostGet(c.st, "filePath", StringS, key)
		ok := c.nondet("fread")
		c.setFailed(Not(ok))
		return Ite(ok, uf("fsContent", StringS, p), uf("fsPartial", StringS, p)), Ite(ok, NilIface, e.libErr("fread"))
	case "*bytes.Reader", "*strings.Reader":
		d := e.ghostGet(c.st, "rdContent", StringS, key)
		e.ghostSet(c.st, "rdContent", StringS, key, StrT(""))
		return d, NilIface
	case "*bytes.Buffer":
		BT := e.namedType("bytes", "Buffer")
		d := e.getField(c.st, BT, key, "buf")
		e.setField(c.st, BT, key, "buf", StrT(""))
		return d, NilIface
	case "ghost:teeReader":
		pr, okp := e.pairs[IfaceVal(r).id]
		if !okp {
			panic("tee reader not concrete")
		}
		d, er := e.drain(c, pr[0])
		_, we := e.writeTo(c, pr[1], d)
		return d, Ite(Eq(er, NilIface), we, er)
	case "ghost:multiReader":
		rs := e.lists[IfaceVal(r).id]
		var parts []*Term
		var er *Term = NilIface
		for _, x := range rs {
			d, e1 := e.drain(c, x)
			parts = append(parts, d)
			er = Ite(Eq(er, NilIface), e1, er)
		}
		return Concat(parts...), er
	}
	e.unmodelled["drain:"+T.String()]++
	ok := c.nondet("read")
	return Fresh("data", StringS), Ite(ok, NilIface, e.libErr("read"))
}

func registerIOModels(e *Engine) {
	m := e.models
	e.pairs = map[int][2]*Term{}
	_ = fmt.Sprint
	// ---------------- destination writer (an input of interface type) ----------------
	m["ext:io.Writer.Write"] = func(c *CallCtx) *Term {
		w, p := c.args[0], c.args[1]
		key := e.objKey(w)
		fails := c.nondet("wfail")
		wn := Fresh("wn", IntS)
		c.axiom(Le(IntT(0), wn))
		c.axiom(Implies(fails, Lt(wn, StrLen(p))))
		// conforming writer: short write <=> error
		n := Ite(fails, wn, StrLen(p))
		c.setFailed(fails)
		out := e.ghostGet(c.st, "out", StringS, key)
		e.ghostSet(c.st, "out", StringS, key, Concat(out, Ite(fails, StrSubstr(p, IntT(0), n), p)))
		e.ghostSet(c.st, "wfailed", BoolS, key, Or(e.ghostGet(c.st, "wfailed", BoolS, key), fails))
		return c.ret(n, Ite(fails, e.libErr("write"), NilIface))
	}
	m["ext:io.WriteCloser.Write"] = m["ext:io.Writer.Write"]
	// ---------------- bytes.Buffer / strings.Builder ----------------
	bufWrite := func(pkg, typ string) ModelFn {
		return func(c *CallCtx) *Term {
			T := e.namedType(pkg, typ)
			b, p := c.args[0], c.args[1]
			e.setField(c.st, T, b, "buf", Concat(e.getField(c.st, T, b, "buf"), p))
			return c.ret(StrLen(p), NilIface)
		}
	}
	bufGet := func(pkg, typ string) ModelFn {
		return func(c *CallCtx) *Term { return e.getField(c.rd, e.namedType(pkg, typ), c.args[0], "buf") }
	}
	m["(*bytes.Buffer).Write"] = bufWrite("bytes", "Buffer")
	m["(*bytes.Buffer).WriteString"] = bufWrite("bytes", "Buffer")
	m["(*bytes.Buffer).Bytes"] = bufGet("bytes", "Buffer")
	m["(*bytes.Buffer).String"] = bufGet("bytes", "Buffer")
	m["(*bytes.Buffer).Len"] = func(c *CallCtx) *Term {
		return StrLen(e.getField(c.rd, e.namedType("bytes", "Buffer"), c.args[0], "buf"))
	}
	m["(*bytes.Buffer).WriteByte"] = func(c *CallCtx) *Term {
		T := e.namedType("bytes", "Buffer")
		b := c.args[0]
		e.setField(c.st, T, b, "buf", Concat(e.getField(c.st, T, b, "buf"), uf("byteStr", StringS, c.args[1])))
		return NilIface
	}
	m["(*strings.Builder).Write"] = bufWrite("strings", "Builder")
	m["(*strings.Builder).WriteString"] = bufWrite("strings", "Builder")
	m["(*strings.Builder).String"] = bufGet("strings", "Builder")
	m["(*strings.Builder).WriteByte"] = func(c *CallCtx) *Term {
		T := e.namedType("strings", "Builder")
		b := c.args[0]
		var s *Term
		if c.args[1].Op == "int" {
			s = StrT(string([]byte{byte(c.args[1].IVal.Int64())}))
		} else {
			s = uf("byteStr", StringS, c.args[1])
		}
		e.setField(c.st, T, b, "buf", Concat(e.getField(c.st, T, b, "buf"), s))
		return NilIface
	}
	// ---------------- hashes ----------------
	for _, h := range []struct{ fn, kind string }{
		{"crypto/md5.New", "md5"}, {"crypto/sha1.New", "sha1"}, {"crypto/sha256.New", "sha256"},
	} {
		kind := h.kind
		m[h.fn] = func(c *CallCtx) *Term {
			l := e.allocLoc(c.st)
			e.ghostSet(c.st, "fed", StringS, l, StrT(""))
			return MkIface(e.ghostTag("hash:"+kind), Ctor(AnyS, "a_loc", l))
		}
		m["ghost:hash:"+kind+".Write"] = func(c *CallCtx) *Term {
			key := e.objKey(c.args[0])
			e.ghostSet(c.st, "fed", StringS, key, Concat(e.ghostGet(c.st, "fed", StringS, key), c.args[1]))
			return c.ret(StrLen(c.args[1]), NilIface)
		}
		m["ghost:hash:"+kind+".Sum"] = func(c *CallCtx) *Term {
			key := e.objKey(c.args[0])
			return Concat(c.args[1], uf(kind, StringS, e.ghostGet(c.rd, "fed", StringS, key)))
		}
	}
	// a hash supplied by the caller: what it was fed is the "out" ghost of the
	// caller-supplied writer model; the sum is a function of that
	m["ext:hash.Hash.Sum"] = func(c *CallCtx) *Term {
		key := e.objKey(c.args[0])
		return Concat(c.args[1], uf("extHashSum", StringS, e.ghostGet(c.rd, "out", StringS, key)))
	}
	m["crypto/md5.Sum"] = func(c *CallCtx) *Term { return uf("md5", StringS, c.args[0]) }
	m["crypto/sha1.Sum"] = func(c *CallCtx) *Term { return uf("sha1", StringS, c.args[0]) }
	m["crypto/sha256.Sum256"] = func(c *CallCtx) *Term { return uf("sha256", StringS, c.args[0]) }
	m["encoding/hex.EncodeToString"] = func(c *CallCtx) *Term { return uf("hexEncode", StringS, c.args[0]) }
	// ---------------- io ----------------
	m["io.WriteString"] = func(c *CallCtx) *Term {
		n, err := e.writeTo(c, c.args[0], c.args[1])
		return c.ret(n, err)
	}
	m["io.Copy"] = func(c *CallCtx) *Term {
		d, rerr := e.drain(c, c.args[1])
		n, werr := e.writeTo(c, c.args[0], d)
		return c.ret(n, Ite(Eq(werr, NilIface), rerr, werr))
	}
	m["io.ReadAll"] = func(c *CallCtx) *Term {
		d, rerr := e.drain(c, c.args[0])
		return c.ret(d, rerr)
	}
	m["io.MultiWriter"] = func(c *CallCtx) *Term {
		ws := e.variadicIfaces(c.rd, c.args[0], "E:io.Writer")
		v := Ctor(AnyS, "a_loc", e.allocLoc(c.st))
		e.lists[v.id] = ws
		return MkIface(e.ghostTag("multiWriter"), v)
	}
	m["ghost:multiWriter.Write"] = func(c *CallCtx) *Term {
		ws, ok := e.lists[IfaceVal(c.args[0]).id]
		if !ok {
			panic("multiWriter not concrete")
		}
		p := c.args[1]
		var err *Term = NilIface
		done := False // an earlier sink failed
		for _, w := range ws {
			s2 := c.st.clone()
			sub := *c
			sub.st = s2
			sub.pc = And(c.pc, Not(done))
			n, er := e.writeTo(&sub, w, p)
			mm := e.mergeStates([]edge{{pc: Not(done), st: s2}, {pc: done, st: c.st}})
			c.st.comps = mm.comps
			thisErr := Ite(Neq(er, NilIface), er, Ite(Neq(n, StrLen(p)), e.libErr("shortwrite"), NilIface))
			err = Ite(done, err, thisErr)
			done = Or(done, Neq(thisErr, NilIface))
		}
		return c.ret(Ite(done, IntT(0), StrLen(p)), err)
	}
	m["io.MultiReader"] = func(c *CallCtx) *Term {
		rs := e.variadicIfaces(c.rd, c.args[0], "E:io.Reader")
		v := Ctor(AnyS, "a_loc", e.allocLoc(c.st))
		e.lists[v.id] = rs
		return MkIface(e.ghostTag("multiReader"), v)
	}
	m["io.TeeReader"] = func(c *CallCtx) *Term {
		v := Ctor(AnyS, "a_loc", e.allocLoc(c.st))
		e.pairs[v.id] = [2]*Term{c.args[0], c.args[1]}
		return MkIface(e.ghostTag("teeReader"), v)
	}
	// ---------------- bufio.Writer ----------------
	m["bufio.NewWriterSize"] = func(c *CallCtx) *Term {
		l := e.allocLoc(c.st)
		e.ghostSet(c.st, "under", IfaceS, l, c.args[0])
		e.ghostSet(c.st, "bufd", StringS, l, StrT(""))
		e.ghostSet(c.st, "bsize", IntS, l, c.args[1])
		e.ghostSet(c.st, "werr", IfaceS, l, NilIface)
		return l
	}
	flushBuf := func(c *CallCtx, l *Term, extra *Term) *Term {
		under := e.ghostGet(c.st, "under", IfaceS, l)
		data := Concat(e.ghostGet(c.st, "bufd", StringS, l), extra)
		_, err := e.writeTo(c, under, data)
		e.ghostSet(c.st, "bufd", StringS, l, StrT(""))
		e.ghostSet(c.st, "werr", IfaceS, l, err)
		return err
	}
	m["(*bufio.Writer).Write"] = func(c *CallCtx) *Term {
		l, p := c.args[0], c.args[1]
		sticky := e.ghostGet(c.st, "werr", IfaceS, l)
		bufd := e.ghostGet(c.st, "bufd", StringS, l)
		fits := Le(Add(StrLen(bufd), StrLen(p)), e.ghostGet(c.st, "bsize", IntS, l))
		hasErr := Neq(sticky, NilIface)
		// case 1: sticky error
		s1 := c.st.clone()
		// case 2: fits -> buffer only
		s2 := c.st.clone()
		e.ghostSet(s2, "bufd", StringS, l, Concat(bufd, p))
		// case 3: overflow -> everything goes down (chunking abstracted)
		s3 := c.st.clone()
		sub := *c
		sub.st = s3
		sub.pc = And(c.pc, Not(hasErr), Not(fits))
		err3 := flushBuf(&sub, l, p)
		mm := e.mergeStates([]edge{{pc: hasErr, st: s1}, {pc: fits, st: s2}, {pc: True, st: s3}})
		c.st.comps = mm.comps
		return c.ret(Ite(hasErr, IntT(0), Ite(fits, StrLen(p), Ite(Eq(err3, NilIface), StrLen(p), IntT(0)))),
			Ite(hasErr, sticky, Ite(fits, NilIface, err3)))
	}
	m["(*bufio.Writer).Flush"] = func(c *CallCtx) *Term {
		l := c.args[0]
		sticky := e.ghostGet(c.st, "werr", IfaceS, l)
		hasErr := Neq(sticky, NilIface)
		empty := Eq(e.ghostGet(c.st, "bufd", StringS, l), StrT(""))
		s1 := c.st.clone()
		s2 := c.st.clone()
		sub := *c
		sub.st = s2
		sub.pc = And(c.pc, Not(hasErr), Not(empty))
		err := flushBuf(&sub, l, StrT(""))
		skip := Or(hasErr, empty)
		mm := e.mergeStates([]edge{{pc: skip, st: s1}, {pc: True, st: s2}})
		c.st.comps = mm.comps
		return Ite(hasErr, sticky, Ite(empty, NilIface, err))
	}
	registerArchiveModels(e)
}

// variadicIfaces reads a concrete-length slice of interface values.
func (e *Engine) variadicIfaces(st *State, s *Term, comp string) []*Term {
	n := SliceLen(s)
	if n.Op != "int" {
		panic(outsideSubset("variadic interface slice of symbolic length"))
	}
	e.declComp(comp, ArrayOf(LocS, IfaceS))
	var out []*Term
	for i := int64(0); i < n.IVal.Int64(); i++ {
		out = append(out, Select(e.comp(st, comp), ElemLoc(SliceBase(s), ElemIndex(SliceOff(s), IntT(i)))))
	}
	return out
}

var _ = ssa.NaiveForm
