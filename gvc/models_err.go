package main

import (
	"go/types"
)

const errChainDepth = 4

// unwrapOf returns the error wrapped by err (nil interface if none).
func (e *Engine) unwrapOf(st *State, err *Term) *Term {
	cases := e.possibleTags(IfaceTag(err))
	var acc *Term = NilIface
	for i := len(cases) - 1; i >= 0; i-- {
		tc := cases[i]
		var v *Term = NilIface
		if tc.tag > 0 {
			T := e.tr.typeOfTag(tc.tag)
			if g, ok := T.(*ghostType); ok {
				if g.name == "fmtError" {
					v = e.ghostGet(st, "errwrap", IfaceS, e.objKey(err))
				}
			} else if sel := e.prog.MethodSets.MethodSet(T).Lookup(nil, "Unwrap"); sel != nil {
				fn := e.prog.MethodValue(sel)
				if fn != nil && fn.Blocks != nil && e.isOurs(fn) && fn.Signature.Results().Len() == 1 {
					rv := e.unboxIface(st, T, err)
					root := &Frame{clause: true}
					r, _, _ := e.execFunction(fn, []*Term{rv}, nil, st.clone(), True, root, "", nil, false)
					if r != nil {
						v = r
					}
				}
			}
		} else if tc.tag < 0 {
			v = uf("extUnwrap", IfaceS, err)
		}
		acc = Ite(tc.cond, v, acc)
	}
	return acc
}

func (e *Engine) errorsIs(st *State, err, target *Term) *Term {
	var rec func(x *Term, d int) *Term
	rec = func(x *Term, d int) *Term {
		eq := And(Neq(x, NilIface), Eq(x, target))
		if d == 0 {
			return eq
		}
		u := e.unwrapOf(st, x)
		if u == NilIface {
			return eq
		}
		return Or(eq, And(Neq(u, NilIface), rec(u, d-1)))
	}
	return Ite(Eq(target, NilIface), Eq(err, NilIface), rec(err, errChainDepth))
}

func (e *Engine) errorsAs(st *State, err *Term, T types.Type) (*Term, *Term) {
	tag := IntT(int64(e.tr.tag(T)))
	var rec func(x *Term, d int) (*Term, *Term)
	rec = func(x *Term, d int) (*Term, *Term) {
		here := Eq(IfaceTag(x), tag)
		val := e.unboxIface(st, T, x)
		if d == 0 {
			return here, val
		}
		u := e.unwrapOf(st, x)
		if u == NilIface {
			return here, val
		}
		f2, v2 := rec(u, d-1)
		return Or(here, And(Neq(u, NilIface), f2)), Ite(here, val, v2)
	}
	return rec(err, errChainDepth)
}

func (e *Engine) errorsAsTag(st *State, err *Term, typeName string) *Term {
	for k, tg := range e.tr.tagOf {
		if k == typeName {
			f, _ := e.errorsAs(st, err, e.tr.typeOfTag(tg))
			return f
		}
	}
	// type never boxed in this run: only an unknown dynamic type could match
	return False
}

func registerErrModels(e *Engine) {}
