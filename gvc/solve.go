package main

import (
	"bytes"
	"context"
	"fmt"
	"os"
	"os/exec"
	"path/filepath"
	"strings"
	"sync"
	"time"
)

type solverSpec struct {
	name string
	args func(file string, timeoutS int) []string
}

var solvers = []solverSpec{
	{"z3-new", func(f string, t int) []string { return []string{"z3-new", fmt.Sprintf("-T:%d", t), f} }},
	{"cvc5", func(f string, t int) []string {
		return []string{"cvc5", "--strings-exp", "--lang=smt2", fmt.Sprintf("--tlimit=%d", t*1000), f}
	}},
	{"z3", func(f string, t int) []string { return []string{"z3", fmt.Sprintf("-T:%d", t), f} }},
}

type solveResult struct {
	status   string
	solver   string
	secs     float64
	output   string
	all      map[string]string
	disagree bool
}

func firstLine(s string) string {
	s = strings.TrimSpace(s)
	if i := strings.IndexByte(s, '\n'); i >= 0 {
		return strings.TrimSpace(s[:i])
	}
	return s
}

// runPortfolio races the solvers on one file; the first definite answer wins.
func runPortfolio(file string, timeoutS int, needAll bool) solveResult {
	return runPortfolioCtx(context.Background(), file, timeoutS, needAll)
}

func runPortfolioCtx(parent context.Context, file string, timeoutS int, needAll bool) solveResult {
	ctx, cancel := context.WithTimeout(parent, time.Duration(timeoutS+2)*time.Second)
	defer cancel()
	type ans struct {
		solver, status, out string
		secs                float64
	}
	ch := make(chan ans, len(solvers))
	start := time.Now()
	for _, s := range solvers {
		s := s
		go func() {
			a := s.args(file, timeoutS)
			cmd := exec.CommandContext(ctx, a[0], a[1:]...)
			var out bytes.Buffer
			cmd.Stdout = &out
			cmd.Stderr = &out
			t0 := time.Now()
			cmd.Run()
			st := firstLine(out.String())
			switch st {
			case "sat", "unsat", "unknown":
			default:
				if strings.Contains(st, "timeout") || ctx.Err() != nil {
					st = "timeout"
				} else {
					st = "error"
				}
			}
			ch <- ans{s.name, st, out.String(), time.Since(t0).Seconds()}
		}()
	}
	res := solveResult{status: "unknown", all: map[string]string{}}
	var best *ans
	for i := 0; i < len(solvers); i++ {
		a := <-ch
		res.all[a.solver] = a.status
		if (a.status == "sat" || a.status == "unsat") && best == nil {
			aa := a
			best = &aa
			if !needAll {
				cancel()
			} else {
				// solver agreement (thorough tier): the others get a grace period
				grace := time.Duration(2*a.secs*float64(time.Second)) + 5*time.Second
				if grace > 30*time.Second {
					grace = 30 * time.Second
				}
				time.AfterFunc(grace, cancel)
			}
		}
		if best != nil && (a.status == "sat" || a.status == "unsat") && a.status != best.status {
			res.disagree = true
		}
		if best == nil && (a.status == "unknown" || a.status == "timeout" || a.status == "error") {
			if res.output == "" || a.status != "error" {
				res.status = a.status
				res.solver = a.solver
				res.output = a.out
			}
		}
	}
	if best != nil && res.disagree {
		res.status, res.solver, res.output, res.secs = "disagree", "portfolio", fmt.Sprintf("the solvers disagree: %v\n%s", res.all, best.out), best.secs
	} else if best != nil {
		res.status, res.solver, res.output, res.secs = best.status, best.solver, best.out, best.secs
	} else {
		res.secs = time.Since(start).Seconds()
	}
	return res
}

// solveObligations renders and discharges obligations (used by the dev command).
func (e *Engine) solveObligations(obls []*Obligation, axioms, assumes, assumePCs []*Term, dir string, timeoutS int, par int, needAll bool) {
	e.renderScripts(obls, axioms, assumes, assumePCs)
	e.runScripts(obls, dir, timeoutS, make(chan struct{}, par), needAll)
}

// renderScripts prepares the assertion sets of every obligation (sequential:
// building terms is not thread safe).  The SMT-LIB text is printed lazily by
// the solver workers (printing only reads terms).
func (e *Engine) renderScripts(obls []*Obligation, axioms, assumes, assumePCs []*Term) {
	for _, o := range obls {
		if o.Status == "static" {
			continue
		}
		var asserts []*Term
		asserts = append(asserts, axioms...)
		nb := len(axioms)
		for i := 0; i < o.NAssum; i++ {
			// facts assumed on paths that exclude this obligation's path are irrelevant
			if i < len(assumePCs) && And(o.PC, assumePCs[i]).IsFalse() {
				continue
			}
			asserts = append(asserts, assumes[i])
			nb++
		}
		asserts = append(asserts, o.PC)
		if !o.Cover {
			asserts = append(asserts, Not(o.Goal))
		}
		fullAsserts := asserts
		asserts = pruneAsserts(asserts, nb)
		syms := map[string]bool{}
		seenT := map[int]bool{}
		for _, a := range asserts {
			Symbols(a, syms, seenT)
		}
		if syms["uf:elemIndex"] {
			asserts = append([]*Term{ElemIndexAxiom()}, asserts...)
		}
		if !o.Cover {
			var nodes []*inputNode
			for _, in := range o.inputs {
				in.terms(&o.mterms, &nodes)
			}
		}
		o.asserts = asserts
		if len(asserts) < len(fullAsserts)-3 && !o.Cover {
			// fallback without relevance pruning (the pruned query can only lose proofs)
			if syms["uf:elemIndex"] {
				fullAsserts = append([]*Term{ElemIndexAxiom()}, fullAsserts...)
			}
			o.assertsFull = fullAsserts
		}
		// abstraction variant: large string concatenations that occur more than
		// once are replaced by fresh constants.  Forgetting their structure can
		// only lose proofs, so "unsat" of the variant is a valid proof; any
		// other answer of the variant is ignored.
		if !o.Cover {
			if abs, changed := abstractStrings(asserts); changed {
				o.assertsAbs = abs
			}
		}
		// piecewise variant: an equation between two concatenations with the
		// same number of parts is implied by the part-wise equations.  Proving
		// those is a proof of the goal; failing to prove them says nothing and
		// the whole equation is tried as usual.
		if !o.Cover && o.Goal.Op == "=" && o.Goal.Args[0].Sort == StringS {
			pairs := alignParts(concatParts(o.Goal.Args[0]), concatParts(o.Goal.Args[1]))
			if len(pairs) > 1 {
				for _, pr := range pairs {
					piece := append(append([]*Term{}, fullAsserts[:len(fullAsserts)-1]...), Not(Eq(pr[0], pr[1])))
					o.pieces = append(o.pieces, pruneAsserts(piece, nb))
				}
			}
		}
		// quantifier-free variant: used to look for candidate models when the
		// full query is undecided (a model of fewer assumptions may be spurious:
		// it only counts once it replays on the real code), and to cross-check
		// vacuity guards
		var qf []*Term
		memo := map[int]bool{}
		for _, a := range asserts {
			if !hasQuant(a, memo) {
				qf = append(qf, a)
			}
		}
		if len(qf) < len(asserts) {
			o.assertsQF = qf
		}
	}
}

// runScripts races the solvers on every prepared obligation; `pool` bounds
// the number of obligations in flight across all callers.
func (e *Engine) runScripts(obls []*Obligation, dir string, timeoutS int, pool chan struct{}, needAll bool) {
	os.MkdirAll(dir, 0o755)
	var wg sync.WaitGroup
	var mu sync.Mutex
	for _, o := range obls {
		if o.Status == "static" {
			continue
		}
		o := o
		wg.Add(1)
		pool <- struct{}{}
		go func() {
			defer wg.Done()
			defer func() { <-pool }()
			name := sanitize(o.ID)
			if len(name) > 180 {
				name = name[:180]
			}
			f := filepath.Join(dir, name+".smt2")
			script := Script(o.asserts, true, o.mterms) + "(get-model)\n"
			os.WriteFile(f, []byte("; "+o.ID+"\n"+script), 0o644)
			smtLen := len(script)
			script = ""
			tmo := timeoutS
			if o.Cover && tmo > 6 {
				tmo = 6
			}
			if o.knownFinding && tmo > 10 {
				tmo = 10 // a recorded finding is expected not to discharge
			}
			// the abstraction variant (if any) is tried first with a short budget:
			// where it applies it answers at once
			var r solveResult
			doneAbs := false
			if o.assertsAbs != nil {
				fa := filepath.Join(dir, name+".abs.smt2")
				os.WriteFile(fa, []byte("; abstraction variant of "+o.ID+"\n"+Script(o.assertsAbs, false, nil)), 0o644)
				ra := runPortfolio(fa, 6, false)
				if ra.status == "unsat" {
					r = solveResult{status: "unsat", solver: ra.solver + "(abs)", secs: ra.secs, all: ra.all}
					doneAbs = true
				}
			}
			if !doneAbs && len(o.pieces) > 0 {
				allOK := true
				secs := 0.0
				ctxP, cancelP := context.WithCancel(context.Background())
				resP := make(chan solveResult, len(o.pieces))
				for k, piece := range o.pieces {
					fp := filepath.Join(dir, fmt.Sprintf("%s.piece%d.smt2", name, k))
					os.WriteFile(fp, []byte("; part-wise variant of "+o.ID+"\n"+Script(piece, false, nil)), 0o644)
					go func() { resP <- runPortfolioCtx(ctxP, fp, tmo, false) }()
				}
				for range o.pieces {
					rp := <-resP
					if rp.secs > secs {
						secs = rp.secs
					}
					if rp.status != "unsat" {
						allOK = false
						cancelP()
					}
				}
				cancelP()
				if allOK {
					r = solveResult{status: "unsat", solver: "portfolio(parts)", secs: secs}
					doneAbs = true
				}
			}
			if !doneAbs {
				if o.assertsFull != nil {
					// the pruned and the unpruned query race; "unsat" of either is a proof
					ff := filepath.Join(dir, name+".full.smt2")
					os.WriteFile(ff, []byte("; unpruned variant of "+o.ID+"\n"+Script(o.assertsFull, true, o.mterms)+"(get-model)\n"), 0o644)
					ctx, cancel := context.WithCancel(context.Background())
					ch := make(chan solveResult, 2)
					go func() { ch <- runPortfolioCtx(ctx, f, tmo, false) }()
					go func() { ch <- runPortfolioCtx(ctx, ff, tmo, needAll && !o.Cover) }()
					r = <-ch
					if r.status != "unsat" {
						r2 := <-ch
						if r2.status == "unsat" || (r2.status == "sat" && r.status != "sat") {
							r = r2
						}
					}
					cancel()
				} else {
					r = runPortfolio(f, tmo, needAll && !o.Cover)
				}
			}
			candidate := false
			if r.status != "unsat" && r.status != "sat" && o.assertsQF != nil {
				f2 := filepath.Join(dir, name+".qf.smt2")
				os.WriteFile(f2, []byte("; quantifier-free variant of "+o.ID+"\n"+Script(o.assertsQF, true, o.mterms)+"(get-model)\n"), 0o644)
				r2 := runPortfolio(f2, tmo/2+1, false)
				if r2.status == "sat" {
					if o.Cover {
						r.status, r.solver = "sat", r2.solver+"(qf)"
					} else {
						r.output = "candidate model from the quantifier-free variant (quantified assumptions dropped):\n" + r2.output
						candidate = true
					}
				} else if r2.status == "unsat" && o.Cover {
					r.status, r.solver = "unsat", r2.solver+"(qf)"
				}
				r.secs += r2.secs
			}
			mu.Lock()
			o.Status, o.Solver, o.Time = r.status, r.solver, r.secs
			o.SMTLen = smtLen
			o.candidateQF = candidate
			if r.status != "unsat" {
				o.Model = r.output
			}
			o.smtFile = f
			o.allSolvers = r.all
			o.asserts, o.assertsFull, o.assertsAbs, o.assertsQF, o.pieces = nil, nil, nil, nil, nil
			mu.Unlock()
		}()
	}
	wg.Wait()
}

// anchors of a term: its ground applications of uninterpreted functions and
// array reads.  Two facts are relevant to each other if they talk about a
// common such term (much finer than sharing a symbol: every heap read
// mentions the same component symbol).
var anchorMemo = map[int][]int{}

func anchorsOf(t *Term) []int {
	if a, ok := anchorMemo[t.id]; ok {
		return a
	}
	set := map[int]bool{}
	seen := map[int]bool{}
	var walk func(x *Term)
	walk = func(x *Term) {
		if seen[x.id] {
			return
		}
		seen[x.id] = true
		if !x.hasBound && (x.Op == "select" || strings.HasPrefix(x.Op, "uf:")) {
			set[x.id] = true
		}
		for _, a := range x.Args {
			walk(a)
		}
	}
	walk(t)
	out := make([]int, 0, len(set))
	for id := range set {
		out = append(out, id)
	}
	anchorMemo[t.id] = out
	return out
}

func pruneAsserts(asserts []*Term, nBackground int) []*Term {
	cone := map[int]bool{}
	coneSyms := map[string]bool{}
	seenS := map[int]bool{}
	for _, a := range asserts[nBackground:] {
		for _, id := range anchorsOf(a) {
			cone[id] = true
		}
		Symbols(a, coneSyms, seenS)
	}
	type bg struct {
		t       *Term
		anchors []int
		quant   bool
		syms    map[string]bool
		in      bool
	}
	qmemo := map[int]bool{}
	bgs := make([]*bg, nBackground)
	for i := 0; i < nBackground; i++ {
		b := &bg{t: asserts[i], anchors: anchorsOf(asserts[i]), quant: hasQuant(asserts[i], qmemo)}
		if b.quant || len(b.anchors) == 0 {
			b.syms = map[string]bool{}
			Symbols(asserts[i], b.syms, map[int]bool{})
			for k := range b.syms {
				if !connecting(k) {
					delete(b.syms, k)
				}
			}
		}
		bgs[i] = b
	}
	changed := true
	for changed {
		changed = false
		for _, b := range bgs {
			if b.in {
				continue
			}
			hit := false
			for _, id := range b.anchors {
				if cone[id] {
					hit = true
					break
				}
			}
			if !hit && b.syms != nil {
				if len(b.syms) == 0 && len(b.anchors) == 0 {
					hit = true
				}
				for s := range b.syms {
					if coneSyms[s] {
						hit = true
						break
					}
				}
			}
			if hit {
				b.in = true
				if b.quant {
					continue // quantified facts are included but do not widen the cone
				}
				changed = true
				for _, id := range b.anchors {
					cone[id] = true
				}
				Symbols(b.t, coneSyms, seenS)
			}
		}
	}
	var out []*Term
	for _, b := range bgs {
		if b.in {
			out = append(out, b.t)
		}
	}
	return append(out, asserts[nBackground:]...)
}

func hasQuant(t *Term, memo map[int]bool) bool {
	if v, ok := memo[t.id]; ok {
		return v
	}
	r := t.Op == "forall"
	if !r {
		for _, a := range t.Args {
			if hasQuant(a, memo) {
				r = true
				break
			}
		}
	}
	memo[t.id] = r
	return r
}

// abstractStrings replaces string concatenations with at least four parts
// that are referenced more than once by fresh constants.
func abstractStrings(asserts []*Term) ([]*Term, bool) {
	refs := map[int]int{}
	seen := map[int]bool{}
	var count func(t *Term)
	count = func(t *Term) {
		for _, a := range t.Args {
			refs[a.id]++
			if !seen[a.id] {
				seen[a.id] = true
				count(a)
			}
		}
	}
	for _, a := range asserts {
		count(a)
	}
	memo := map[int]*Term{}
	changed := false
	var sub func(t *Term) *Term
	sub = func(t *Term) *Term {
		if len(t.Args) == 0 || t.Op == "forall" {
			return t
		}
		if r, ok := memo[t.id]; ok {
			return r
		}
		var r *Term
		if t.Op == "str.++" && len(t.Args) >= 4 && refs[t.id] >= 2 && !t.hasBound {
			r = Sym(fmt.Sprintf("abs!%d", t.id), StringS)
			changed = true
		} else {
			args := make([]*Term, len(t.Args))
			ch := false
			for i, a := range t.Args {
				args[i] = sub(a)
				ch = ch || args[i] != a
			}
			if ch {
				r = mk(t.Op, t.Sort, args...)
			} else {
				r = t
			}
		}
		memo[t.id] = r
		return r
	}
	out := make([]*Term, len(asserts))
	for i, a := range asserts {
		out[i] = sub(a)
	}
	return out, changed
}

func connecting(sym string) bool {
	// function symbols and allocation counters occur almost everywhere; they
	// do not make two facts relevant to each other
	if strings.HasPrefix(sym, "uf:") || sym == "A0" || strings.HasPrefix(sym, "alloc!") || strings.HasPrefix(sym, "allocj!") || strings.HasPrefix(sym, "hv:G:alloc!") {
		return false
	}
	return true
}

// alignParts splits two part lists at the parts they share (longest common
// subsequence of identical terms) and pairs up what lies between; segments of
// equal length are paired part by part.
func alignParts(pa, pb []*Term) [][2]*Term {
	n, m := len(pa), len(pb)
	if n*m > 250000 {
		return nil
	}
	l := make([][]int, n+1)
	for i := range l {
		l[i] = make([]int, m+1)
	}
	for i := n - 1; i >= 0; i-- {
		for j := m - 1; j >= 0; j-- {
			if pa[i] == pb[j] {
				l[i][j] = l[i+1][j+1] + 1
			} else if l[i+1][j] >= l[i][j+1] {
				l[i][j] = l[i+1][j]
			} else {
				l[i][j] = l[i][j+1]
			}
		}
	}
	var out [][2]*Term
	seg := func(sa, sb []*Term) {
		if len(sa) == 0 && len(sb) == 0 {
			return
		}
		if len(sa) == len(sb) {
			for k := range sa {
				if sa[k] != sb[k] {
					out = append(out, [2]*Term{sa[k], sb[k]})
				}
			}
			return
		}
		// choices on the same condition correspond to each other
		same := func(x, y *Term) bool {
			return x.Op == "ite" && y.Op == "ite" && x.Args[0] == y.Args[0]
		}
		for len(sa) > 0 && len(sb) > 0 && same(sa[len(sa)-1], sb[len(sb)-1]) {
			out = append(out, [2]*Term{sa[len(sa)-1], sb[len(sb)-1]})
			sa, sb = sa[:len(sa)-1], sb[:len(sb)-1]
		}
		for len(sa) > 0 && len(sb) > 0 && same(sa[0], sb[0]) {
			out = append(out, [2]*Term{sa[0], sb[0]})
			sa, sb = sa[1:], sb[1:]
		}
		if len(sa) > 0 || len(sb) > 0 {
			out = append(out, [2]*Term{Concat(sa...), Concat(sb...)})
		}
	}
	i, j, si, sj := 0, 0, 0, 0
	for i < n && j < m {
		if pa[i] == pb[j] {
			seg(pa[si:i], pb[sj:j])
			i++
			j++
			si, sj = i, j
		} else if l[i+1][j] >= l[i][j+1] {
			i++
		} else {
			j++
		}
	}
	seg(pa[si:], pb[sj:])
	return out
}
