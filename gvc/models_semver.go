package main

import "go/types"

const semverPath = "github.com/Masterminds/semver/v3"

func init() {
	extraModels = append(extraModels, func(e *Engine) {
		m := e.models
		// Masterminds/semver (assumed parse contract): NewVersion(s) succeeds iff
		// s matches the loose grammar v?N(.N(.N)?)?(-pre)?(+meta)?; the parts are
		// functions of s.
		m[semverPath+".NewVersion"] = func(c *CallCtx) *Term {
			s := c.args[0]
			VT := e.namedType(semverPath, "Version")
			ok := uf("semverOK", BoolS, s)
			l := e.allocLoc(c.st)
			e.zeroInit(c.st, VT, l)
			for _, f := range []struct{ field, fn string }{{"major", "semverMajor"}, {"minor", "semverMinor"}, {"patch", "semverPatch"}} {
				v := uf(f.fn, IntS, s)
				c.axiom(Ge(v, IntT(0)))
				e.setField(c.st, VT, l, f.field, v)
			}
			e.setField(c.st, VT, l, "pre", uf("semverPre", StringS, s))
			e.setField(c.st, VT, l, "metadata", uf("semverMeta", StringS, s))
			e.setField(c.st, VT, l, "original", s)
			return c.ret(Ite(ok, l, NilLoc), Ite(ok, NilIface, MkIface(e.ghostTag("liberr"), Ctor(AnyS, "a_int", uf("semverErr", IntS, s)))))
		}
		get := func(field string) ModelFn {
			return func(c *CallCtx) *Term {
				VT := e.namedType(semverPath, "Version")
				s := e.tr.sortOf(VT)
				return Sel(s, s.DT.Ctors[0].Name, e.structFieldSel(VT, field), c.args[0])
			}
		}
		m["("+semverPath+".Version).Major"] = get("major")
		m["("+semverPath+".Version).Minor"] = get("minor")
		m["("+semverPath+".Version).Patch"] = get("patch")
		m["("+semverPath+".Version).Prerelease"] = get("pre")
		m["("+semverPath+".Version).Metadata"] = get("metadata")
		_ = types.Typ
	})
}
