package main

// Native models of library functions (the trusted base).  Every model is
// listed in the evidence of the checks that reach it.

import (
	"fmt"
	"go/types"
	"strings"
)

func (c *CallCtx) ret(ts ...*Term) *Term {
	if len(ts) == 1 {
		return ts[0]
	}
	return Tuple(ts...)
}

func (c *CallCtx) nondet(name string) *Term { return Fresh("nd:"+name, BoolS) }

func (c *CallCtx) axiom(t *Term) { c.e.axiom(t) }

// libErr makes a non-nil error value of a model-private dynamic type.
func (e *Engine) libErr(kind string) *Term {
	return MkIface(e.ghostTag("liberr"), Ctor(AnyS, "a_int", Fresh("err:"+kind, IntS)))
}

func (c *CallCtx) fail(kind string) *Term {
	// a primitive failure event of the environment (file unreadable, writer
	// failing, signer failing): recorded in the ghost flag `failed`.
	return c.e.libErr(kind)
}

func (c *CallCtx) setFailed(cond *Term) {
	e := c.e
	e.flagSet(c.st, "failed", Or(e.flagGet(c.st, "failed"), And(c.pc, cond)))
}

func uf(name string, res *Sort, args ...*Term) *Term {
	ss := make([]*Sort, len(args))
	for i, a := range args {
		ss[i] = a.Sort
	}
	return App(DeclUF(name, res, ss...), args...)
}

func registerModels(e *Engine) {
	m := e.models
	// ---------------- strings ----------------
	m["strings.HasPrefix"] = func(c *CallCtx) *Term { return StrPrefixOf(c.args[1], c.args[0]) }
	m["strings.HasSuffix"] = func(c *CallCtx) *Term { return StrSuffixOf(c.args[1], c.args[0]) }
	m["strings.Contains"] = func(c *CallCtx) *Term { return StrContains(c.args[0], c.args[1]) }
	m["strings.ReplaceAll"] = func(c *CallCtx) *Term { return c.e.replaceAll(c.args[0], c.args[1], c.args[2]) }
	m["strings.TrimSpace"] = func(c *CallCtx) *Term { return c.e.trimSpace(c.args[0]) }
	m["bytes.TrimSpace"] = m["strings.TrimSpace"]
	m["strings.TrimLeft"] = func(c *CallCtx) *Term { return c.e.trimLeft(c.args[0], c.args[1]) }
	m["strings.TrimRight"] = func(c *CallCtx) *Term { return c.e.trimRight(c.args[0], c.args[1]) }
	m["strings.Trim"] = func(c *CallCtx) *Term { return c.e.trimRight(c.e.trimLeft(c.args[0], c.args[1]), c.args[1]) }
	m["strings.TrimPrefix"] = func(c *CallCtx) *Term {
		s, p := c.args[0], c.args[1]
		return Ite(StrPrefixOf(p, s), StrSubstr(s, StrLen(p), Sub(StrLen(s), StrLen(p))), s)
	}
	m["strings.TrimSuffix"] = func(c *CallCtx) *Term {
		s, p := c.args[0], c.args[1]
		return Ite(StrSuffixOf(p, s), StrSubstr(s, IntT(0), Sub(StrLen(s), StrLen(p))), s)
	}
	m["strings.EqualFold"] = func(c *CallCtx) *Term {
		return Eq(uf("strLower", StringS, c.args[0]), uf("strLower", StringS, c.args[1]))
	}
	m["strings.ToLower"] = func(c *CallCtx) *Term { return uf("strLower", StringS, c.args[0]) }
	m["strings.Join"] = func(c *CallCtx) *Term { return c.e.joinStrings(c.rd, c.args[0], c.args[1]) }
	m["strings.Split"] = func(c *CallCtx) *Term {
		e := c.e
		s, sep := c.args[0], c.args[1]
		base := e.allocLoc(c.st)
		idx := StrIndexOf(s, sep, IntT(0))
		first := Ite(Lt(idx, IntT(0)), s, StrSubstr(s, IntT(0), idx))
		e.leafComp("E:string", types.Typ[types.String])
		e.setComp(c.st, "E:string", Store(e.comp(c.st, "E:string"), ElemLoc(base, IntT(0)), first))
		n := uf("splitCount", IntS, s, sep)
		c.axiom(Ge(n, IntT(1)))
		return MkSlice(base, IntT(0), n, n)
	}
	m["strings.Map"] = func(c *CallCtx) *Term { return uf("strMap", StringS, c.args[0], c.args[1]) }
	m["strings.NewReader"] = func(c *CallCtx) *Term {
		e := c.e
		l := e.allocLoc(c.st)
		e.ghostSet(c.st, "rdContent", StringS, l, c.args[0])
		return l
	}
	m["bytes.NewReader"] = m["strings.NewReader"]
	m["strings.NewReplacer"] = func(c *CallCtx) *Term {
		e := c.e
		vs := e.stringElems(c.rd, c.args[0])
		l := e.allocLoc(c.st)
		if vs == nil || len(vs)%2 != 0 {
			panic(outsideSubset("strings.NewReplacer with symbolic arguments"))
		}
		e.replacers[l.id] = vs
		return l
	}
	m["(*strings.Replacer).Replace"] = func(c *CallCtx) *Term {
		vs, ok := c.e.replacers[c.args[0].id]
		if !ok {
			panic(outsideSubset("Replacer.Replace on unknown replacer"))
		}
		// sequential replace_all is exact when the patterns cannot overlap each other's output
		s := c.args[1]
		for i := 0; i+1 < len(vs); i += 2 {
			s = c.e.replaceAll(s, vs[i], vs[i+1])
		}
		c.e.note("model:strings.Replacer as sequential replace_all")
		return s
	}
	// ---------------- strconv ----------------
	m["strconv.Itoa"] = func(c *CallCtx) *Term { return itoa(c.args[0]) }
	m["strconv.FormatInt"] = func(c *CallCtx) *Term {
		if c.args[1].Op == "int" && c.args[1].IVal.Int64() == 10 {
			return itoa(c.args[0])
		}
		return uf("formatInt", StringS, c.args[0], c.args[1])
	}
	m["strconv.Atoi"] = func(c *CallCtx) *Term {
		s := c.args[0]
		ok := uf("atoiOK", BoolS, s)
		v := uf("atoiVal", IntS, s)
		return c.ret(Ite(ok, v, IntT(0)), Ite(ok, NilIface, MkIface(c.e.ghostTag("liberr"), Ctor(AnyS, "a_int", uf("atoiErr", IntS, s)))))
	}
	m["strconv.ParseUint"] = func(c *CallCtx) *Term {
		s := c.args[0]
		ok := uf("parseUintOK", BoolS, s, c.args[1], c.args[2])
		v := uf("parseUintVal", IntS, s, c.args[1], c.args[2])
		c.axiom(Ge(v, IntT(0)))
		if c.args[2].Op == "int" {
			c.axiom(Implies(ok, Lt(v, pow2(uint(c.args[2].IVal.Int64())))))
		}
		return c.ret(Ite(ok, v, IntT(0)), Ite(ok, NilIface, MkIface(c.e.ghostTag("liberr"), Ctor(AnyS, "a_int", uf("parseUintErr", IntS, s)))))
	}
	m["strconv.ParseInt"] = func(c *CallCtx) *Term {
		s := c.args[0]
		ok := uf("parseIntOK", BoolS, s, c.args[1], c.args[2])
		v := uf("parseIntVal", IntS, s, c.args[1], c.args[2])
		return c.ret(Ite(ok, v, IntT(0)), Ite(ok, NilIface, MkIface(c.e.ghostTag("liberr"), Ctor(AnyS, "a_int", uf("parseIntErr", IntS, s)))))
	}
	// ---------------- path/filepath, path ----------------
	m["path/filepath.ToSlash"] = func(c *CallCtx) *Term { return c.args[0] }
	m["path/filepath.FromSlash"] = func(c *CallCtx) *Term { return c.args[0] }
	m["path/filepath.VolumeName"] = func(c *CallCtx) *Term { return StrT("") }
	m["path/filepath.Clean"] = func(c *CallCtx) *Term { return c.e.pathClean(c.args[0]) }
	m["path.Clean"] = m["path/filepath.Clean"]
	m["path/filepath.Join"] = func(c *CallCtx) *Term { return c.e.pathJoin(c.e.stringElems(c.rd, c.args[0])) }
	m["path.Join"] = m["path/filepath.Join"]
	m["path/filepath.Dir"] = func(c *CallCtx) *Term { return c.e.pathDir(c.args[0]) }
	m["path/filepath.Base"] = func(c *CallCtx) *Term { return c.e.pathBase(c.args[0]) }
	m["path/filepath.Ext"] = func(c *CallCtx) *Term { return c.e.pathExt(c.args[0]) }
	m["path/filepath.Rel"] = func(c *CallCtx) *Term {
		ok := uf("relOK", BoolS, c.args[0], c.args[1])
		return c.ret(Ite(ok, uf("pathRel", StringS, c.args[0], c.args[1]), StrT("")), Ite(ok, NilIface, c.e.libErr("rel")))
	}
	m["path/filepath.Abs"] = func(c *CallCtx) *Term {
		ok := c.nondet("abs")
		return c.ret(Ite(ok, uf("pathAbs", StringS, c.args[0]), StrT("")), Ite(ok, NilIface, c.e.libErr("abs")))
	}
	// ---------------- fmt ----------------
	m["fmt.Sprintf"] = func(c *CallCtx) *Term { return c.e.sprintf(c, c.args[0], c.args[1]) }
	m["fmt.Errorf"] = func(c *CallCtx) *Term { return c.e.errorf(c, c.args[0], c.args[1]) }
	m["fmt.Sprint"] = func(c *CallCtx) *Term {
		vs := c.e.variadicArgs(c.rd, c.args[0])
		var parts []*Term
		for _, v := range vs {
			parts = append(parts, c.e.formatArg(c, 'v', v))
		}
		return Concat(parts...)
	}
	m["fmt.Fprintf"] = func(c *CallCtx) *Term {
		s := c.e.sprintf(c, c.args[1], c.args[2])
		n, err := c.e.writeTo(c, c.args[0], s)
		return c.ret(n, err)
	}
	m["fmt.Fprint"] = func(c *CallCtx) *Term {
		vs := c.e.variadicArgs(c.rd, c.args[1])
		var parts []*Term
		for _, v := range vs {
			parts = append(parts, c.e.formatArg(c, 'v', v))
		}
		n, err := c.e.writeTo(c, c.args[0], Concat(parts...))
		return c.ret(n, err)
	}
	m["fmt.Fprintln"] = func(c *CallCtx) *Term {
		vs := c.e.variadicArgs(c.rd, c.args[1])
		var parts []*Term
		for i, v := range vs {
			if i > 0 {
				parts = append(parts, StrT(" "))
			}
			parts = append(parts, c.e.formatArg(c, 'v', v))
		}
		parts = append(parts, StrT("\n"))
		n, err := c.e.writeTo(c, c.args[0], Concat(parts...))
		return c.ret(n, err)
	}
	m["fmt.Println"] = func(c *CallCtx) *Term {
		c.e.flagSet(c.st, "printed", True)
		return c.ret(IntT(0), NilIface)
	}
	m["fmt.Printf"] = m["fmt.Println"]
	m["fmt.Print"] = m["fmt.Println"]
	// ---------------- errors ----------------
	m["errors.New"] = func(c *CallCtx) *Term {
		e := c.e
		id := e.newObj(c.st)
		l := MkLoc(id, PNil)
		e.ghostSet(c.st, "errmsg", StringS, l, c.args[0])
		e.ghostSet(c.st, "errwrap", IfaceS, l, NilIface)
		return MkIface(e.ghostTag("fmtError"), Ctor(AnyS, "a_box", id))
	}
	m["ghost:fmtError.Error"] = func(c *CallCtx) *Term {
		return c.e.ghostGet(c.rd, "errmsg", StringS, c.e.objKey(c.args[0]))
	}
	m["ghost:liberr.Error"] = func(c *CallCtx) *Term { return uf("errMsg", StringS, c.args[0]) }
	m["ext:error.Error"] = func(c *CallCtx) *Term { return uf("errMsg", StringS, c.args[0]) }
	m["errors.Is"] = func(c *CallCtx) *Term { return c.e.errorsIs(c.rd, c.args[0], c.args[1]) }
	m["errors.As"] = func(c *CallCtx) *Term {
		e := c.e
		tag := IfaceTag(c.args[1])
		if tag.Op != "int" {
			panic("errors.As: target type unknown")
		}
		pt := e.tr.typeOfTag(int(tag.IVal.Int64())).Underlying().(*types.Pointer)
		found, val := e.errorsAs(c.rd, c.args[0], pt.Elem())
		tl := e.payloadTerm(c.args[1])
		old := e.loadPtr(c.st, pt.Elem(), tl)
		e.storePtr(c.st, pt.Elem(), tl, Ite(found, val, old), c.pc)
		return found
	}
	// ---------------- time ----------------
	m["time.Now"] = func(c *CallCtx) *Term {
		c.e.flagSet(c.st, "clockRead", Or(c.e.flagGet(c.st, "clockRead"), c.pc))
		t := Fresh("now", IntS)
		c.axiom(Neq(t, IntT(0)))
		c.axiom(uf("fromClock", BoolS, t))
		return t
	}
	m["(time.Time).IsZero"] = func(c *CallCtx) *Term { return Eq(c.args[0], IntT(0)) }
	m["(time.Time).Unix"] = func(c *CallCtx) *Term { return uf("timeUnix", IntS, c.args[0]) }
	m["(time.Time).UTC"] = func(c *CallCtx) *Term { return c.args[0] }
	m["(time.Time).String"] = func(c *CallCtx) *Term { return uf("timeString", StringS, c.args[0]) }
	m["(time.Time).Format"] = func(c *CallCtx) *Term { return uf("timeFormat", StringS, c.args[0], c.args[1]) }
	m["time.Unix"] = func(c *CallCtx) *Term {
		t := uf("mkTime", IntS, c.args[0], c.args[1])
		c.axiom(Eq(uf("timeUnix", IntS, t), c.args[0]))
		c.axiom(Neq(t, IntT(0)))
		c.axiom(Not(uf("fromClock", BoolS, t)))
		return t
	}
	// ---------------- os (file system reads; environment) ----------------
	m["os.Getenv"] = func(c *CallCtx) *Term {
		c.e.flagSet(c.st, "envRead", Or(c.e.flagGet(c.st, "envRead"), c.pc))
		return uf("getenv", StringS, c.args[0])
	}
	m["os.Hostname"] = func(c *CallCtx) *Term {
		c.e.flagSet(c.st, "envRead", Or(c.e.flagGet(c.st, "envRead"), c.pc))
		ok := c.nondet("hostname")
		return c.ret(Ite(ok, Fresh("hostname", StringS), StrT("")), Ite(ok, NilIface, c.e.libErr("hostname")))
	}
	m["os.Expand"] = func(c *CallCtx) *Term {
		s := c.args[0]
		r := uf("osExpand", StringS, s, c.args[1])
		c.axiom(Implies(Not(StrContains(s, StrT("$"))), Eq(r, s)))
		return r
	}
	m["os.ReadFile"] = func(c *CallCtx) *Term {
		p := c.args[0]
		ok := uf("fsReadable", BoolS, p)
		// an unreadable file is a failure event unless the caller declared the
		// read optional (fsOptional, set by an `assume` clause of the contract)
		c.setFailed(And(Not(ok), Not(uf("fsOptional", BoolS, p))))
		return c.ret(Ite(ok, uf("fsContent", StringS, p), StrT("")), Ite(ok, NilIface, MkIface(c.e.ghostTag("liberr"), Ctor(AnyS, "a_int", uf("readErr", IntS, p)))))
	}
	openFile := func(c *CallCtx) *Term {
		e := c.e
		p := c.args[0]
		ok := uf("fsReadable", BoolS, p)
		c.setFailed(Not(ok))
		l := e.allocLoc(c.st)
		e.ghostSet(c.st, "filePath", StringS, l, p)
		e.ghostSet(c.st, "forWriting", BoolS, l, False)
		e.ghostSet(c.st, "fileClosed", BoolS, l, False)
		return c.ret(Ite(ok, l, NilLoc), Ite(ok, NilIface, MkIface(e.ghostTag("liberr"), Ctor(AnyS, "a_int", uf("readErr", IntS, p)))))
	}
	m["os.Open"] = openFile
	m["os.OpenFile"] = openFile
	m["(*os.File).Close"] = func(c *CallCtx) *Term {
		// closing a file opened for reading has no effect on tracked state;
		// the first close of a file created for writing may report a deferred
		// write error (a primitive failure event)
		e := c.e
		ok := c.nondet("fclose")
		forWriting := e.ghostGet(c.st, "forWriting", BoolS, c.args[0])
		closed := e.ghostGet(c.st, "fileClosed", BoolS, c.args[0])
		c.setFailed(And(forWriting, Not(closed), Not(ok)))
		e.ghostSet(c.st, "fileClosed", BoolS, c.args[0], True)
		return Ite(ok, NilIface, c.e.libErr("fclose"))
	}
	// the output file of the command line tool: which path was created, and
	// whether a file is (still) present there
	m["os.Create"] = func(c *CallCtx) *Term {
		e := c.e
		p := c.args[0]
		ok := c.nondet("fcreate")
		l := e.allocLoc(c.st)
		e.ghostSet(c.st, "filePath", StringS, l, p)
		e.ghostSet(c.st, "forWriting", BoolS, l, True)
		e.ghostSet(c.st, "fileClosed", BoolS, l, False)
		e.globSet(c.st, "createdPath", StringS, Ite(ok, p, e.globGet(c.st, "createdPath", StringS)))
		e.flagSet(c.st, "outputPresent", Or(e.flagGet(c.st, "outputPresent"), And(c.pc, ok)))
		e.flagSet(c.st, "outputCreated", Or(e.flagGet(c.st, "outputCreated"), And(c.pc, ok)))
		return c.ret(Ite(ok, l, NilLoc), Ite(ok, NilIface, e.libErr("fcreate")))
	}
	m["os.Remove"] = func(c *CallCtx) *Term {
		// assumed to succeed for a file this process has just created
		e := c.e
		same := Eq(c.args[0], e.globGet(c.st, "createdPath", StringS))
		e.flagSet(c.st, "outputPresent", And(e.flagGet(c.st, "outputPresent"), Not(And(c.pc, same))))
		return NilIface
	}
	// a packager obtained from the registry: its methods are those of the
	// five Package contracts in the abstract (may fail; proposes some name)
	m["ext:github.com/goreleaser/nfpm/v2.Packager.Package"] = func(c *CallCtx) *Term {
		fails := c.nondet("pkgfail")
		c.setFailed(False)
		return Ite(fails, c.e.libErr("package"), NilIface)
	}
	m["ext:github.com/goreleaser/nfpm/v2.Packager.ConventionalFileName"] = func(c *CallCtx) *Term {
		return uf("conventionalName", StringS, IfaceTag(c.args[0]), uf("anyKey", IntS, IfaceVal(c.args[0])), LocObj(c.args[1]))
	}
	m["os.Stat"] = func(c *CallCtx) *Term {
		p := c.args[0]
		ok := uf("fsExists", BoolS, p)
		fi := MkIface(c.e.ghostTag("osFileInfo"), Ctor(AnyS, "a_str", p))
		ne := MkIface(c.e.ghostTag("liberr"), Ctor(AnyS, "a_int", uf("statErr", IntS, p)))
		return c.ret(Ite(ok, fi, NilIface), Ite(ok, NilIface, ne))
	}
	m["os.Lstat"] = m["os.Stat"]
	m["ghost:osFileInfo.ModTime"] = func(c *CallCtx) *Term { return uf("fsMTime", IntS, c.e.payloadTerm(c.args[0])) }
	m["ghost:osFileInfo.Mode"] = func(c *CallCtx) *Term {
		r := uf("fsMode", IntS, c.e.payloadTerm(c.args[0]))
		c.axiom(Ge(r, IntT(0)))
		c.axiom(Lt(r, pow2(32)))
		return r
	}
	m["ghost:osFileInfo.Size"] = func(c *CallCtx) *Term { return uf("fsSize", IntS, c.e.payloadTerm(c.args[0])) }
	m["ghost:osFileInfo.IsDir"] = func(c *CallCtx) *Term { return uf("fsIsDir", BoolS, c.e.payloadTerm(c.args[0])) }
	m["ghost:osFileInfo.Name"] = func(c *CallCtx) *Term { return c.e.pathBase(c.e.payloadTerm(c.args[0])) }
	m["os.Readlink"] = func(c *CallCtx) *Term {
		p := c.args[0]
		ok := uf("fsIsLink", BoolS, p)
		return c.ret(Ite(ok, uf("fsLink", StringS, p), StrT("")), Ite(ok, NilIface, MkIface(c.e.ghostTag("liberr"), Ctor(AnyS, "a_int", uf("readlinkErr", IntS, p)))))
	}
	m["(io/fs.FileMode).IsDir"] = func(c *CallCtx) *Term { return Eq(bitOf(c.args[0], 31), IntT(1)) }
	m["(io/fs.FileMode).String"] = func(c *CallCtx) *Term { return uf("fileModeString", StringS, c.args[0]) }
	m["(io/fs.FileMode).Perm"] = func(c *CallCtx) *Term { return ModE(c.args[0], IntT(512)) }
	// ---------------- sync ----------------
	nop := func(c *CallCtx) *Term { return nil }
	m["(*sync.Mutex).Lock"] = nop
	m["(*sync.Mutex).Unlock"] = nop
	m["sync/atomic.AddUint64"] = func(c *CallCtx) *Term {
		e := c.e
		t := types.Typ[types.Uint64]
		v := Add(e.loadPtr(c.st, t, c.args[0]), c.args[1])
		e.storePtr(c.st, t, c.args[0], v, c.pc)
		return v
	}
	m["sync/atomic.LoadUint64"] = func(c *CallCtx) *Term { return c.e.loadPtr(c.rd, types.Typ[types.Uint64], c.args[0]) }
	// ---------------- sort / slices / maps ----------------
	m["github.com/AlekSi/pointer.ToString"] = func(c *CallCtx) *Term {
		e := c.e
		l := e.allocLoc(c.st)
		e.storeAt(c.st, types.Typ[types.String], l, compCell(types.Typ[types.String]), c.args[0])
		return l
	}
	m["github.com/AlekSi/pointer.GetString"] = func(c *CallCtx) *Term {
		e := c.e
		p := c.args[0]
		return Ite(Eq(p, NilLoc), StrT(""), e.loadPtr(c.rd, types.Typ[types.String], p))
	}
	registerIOModels(e)
	registerErrModels(e)
}

func itoa(x *Term) *Term {
	if x.Op == "int" {
		return StrT(x.IVal.String())
	}
	return Ite(Ge(x, IntT(0)), StrFromInt(x), Concat(StrT("-"), StrFromInt(Neg(x))))
}

// ---- string helpers with instance axioms ----

func (e *Engine) replaceAll(s, a, b *Term) *Term {
	r := StrReplaceAll(s, a, b)
	if r.Op == "str.replace_all" && a.Op == "str" && b.Op == "str" && a.SVal != "" && !strings.Contains(b.SVal, a.SVal) {
		// the result does not contain the pattern (needs induction; stated as an axiom)
		e.axiomQ(Not(StrContains(r, a)))
		e.axiomQ(Implies(Not(StrContains(s, a)), Eq(r, s)))
		e.axiomQ(Implies(Eq(s, StrT("")), Eq(r, StrT(""))))
		e.note("axiom:replace_all-removes-pattern")
	}
	return r
}

// axiomQ adds an axiom, universally closing it if it mentions bound variables.
func (e *Engine) axiomQ(t *Term) {
	e.axiom(t)
}

func (e *Engine) trimSpace(s *Term) *Term {
	if s.Op == "str" {
		return StrT(strings.TrimSpace(s.SVal))
	}
	r := uf("trimSpace", StringS, s)
	e.axiomQ(Le(StrLen(r), StrLen(s)))
	e.axiomQ(StrContains(s, r))
	e.axiomQ(Eq(uf("trimSpace", StringS, r), r))
	for _, ws := range []string{" ", "\n", "\t", "\r"} {
		e.axiomQ(Not(StrPrefixOf(StrT(ws), r)))
		e.axiomQ(Not(StrSuffixOf(StrT(ws), r)))
	}
	e.note("axiom:TrimSpace (substring, idempotent, no leading/trailing ASCII space)")
	return r
}

func (e *Engine) trimLeft(s, cut *Term) *Term {
	if s.Op == "str" && cut.Op == "str" {
		return StrT(strings.TrimLeft(s.SVal, cut.SVal))
	}
	r := uf("trimLeft", StringS, s, cut)
	e.axiomQ(StrSuffixOf(r, s))
	if cut.Op == "str" {
		var none []*Term
		for i := 0; i < len(cut.SVal); i++ {
			ch := StrT(cut.SVal[i : i+1])
			e.axiomQ(Not(StrPrefixOf(ch, r)))
			none = append(none, Not(StrPrefixOf(ch, s)))
		}
		e.axiomQ(Implies(And(none...), Eq(r, s)))
		// what was cut consists of cut characters only
		cutPart := StrSubstr(s, IntT(0), Sub(StrLen(s), StrLen(r)))
		for i := 0; i < len(cut.SVal); i++ {
			cutPart = StrReplaceAll(cutPart, StrT(cut.SVal[i:i+1]), StrT(""))
		}
		e.axiomQ(Eq(cutPart, StrT("")))
	}
	e.note("axiom:TrimLeft (suffix of input, no leading cut char, identity when nothing to cut)")
	return r
}

func (e *Engine) trimRight(s, cut *Term) *Term {
	if s.Op == "str" && cut.Op == "str" {
		return StrT(strings.TrimRight(s.SVal, cut.SVal))
	}
	r := uf("trimRight", StringS, s, cut)
	e.axiomQ(StrPrefixOf(r, s))
	if cut.Op == "str" {
		var none []*Term
		for i := 0; i < len(cut.SVal); i++ {
			ch := StrT(cut.SVal[i : i+1])
			e.axiomQ(Not(StrSuffixOf(ch, r)))
			none = append(none, Not(StrSuffixOf(ch, s)))
		}
		e.axiomQ(Implies(And(none...), Eq(r, s)))
		cutPart := StrSubstr(s, StrLen(r), Sub(StrLen(s), StrLen(r)))
		for i := 0; i < len(cut.SVal); i++ {
			cutPart = StrReplaceAll(cutPart, StrT(cut.SVal[i:i+1]), StrT(""))
		}
		e.axiomQ(Eq(cutPart, StrT("")))
	}
	e.note("axiom:TrimRight (prefix of input, no trailing cut char, identity when nothing to cut)")
	return r
}

func (e *Engine) pathClean(p *Term) *Term {
	if p.Op == "str" {
		return StrT(cleanPath(p.SVal))
	}
	if p.Op == "uf:pathClean" {
		return p // idempotent
	}
	if p.Op == "ite" {
		return Ite(p.Args[0], e.pathClean(p.Args[1]), e.pathClean(p.Args[2]))
	}
	// a choice inside a concatenation is lifted first (choices are kept
	// factored by the term constructors)
	if p.Op == "str.++" {
		for i, a := range p.Args {
			if a.Op == "ite" {
				with := func(x *Term) *Term {
					parts := append(append(append([]*Term{}, p.Args[:i]...), x), p.Args[i+1:]...)
					return Concat(parts...)
				}
				return Ite(a.Args[0], e.pathClean(with(a.Args[1])), e.pathClean(with(a.Args[2])))
			}
		}
	}
	// leading runs of slashes collapse
	if p.Op == "str.++" && p.Args[0].Op == "str" && strings.HasPrefix(p.Args[0].SVal, "//") {
		rest := strings.TrimLeft(p.Args[0].SVal, "/")
		return e.pathClean(Concat(append([]*Term{StrT("/" + rest)}, p.Args[1:]...)...))
	}
	r := uf("pathClean", StringS, p)
	sl := StrT("/")
	if p.Op == "str.++" && p.Args[0].Op == "str" && p.Args[0].SVal == "/" {
		// Clean("/" + x) == Clean(x) when x is itself rooted (duplicate slash)
		x := Concat(p.Args[1:]...)
		e.axiomQ(Implies(StrPrefixOf(sl, x), Eq(r, e.pathCleanNoAx(x))))
	}
	e.axiomQ(Neq(r, StrT("")))
	e.axiomQ(Or(Eq(r, sl), Not(StrSuffixOf(sl, r))))
	e.axiomQ(Not(StrContains(r, StrT("//"))))
	e.axiomQ(Not(StrContains(r, StrT("/./"))))
	e.axiomQ(Not(StrSuffixOf(StrT("/."), r)))
	e.axiomQ(Iff(StrPrefixOf(sl, p), StrPrefixOf(sl, r)))
	e.axiomQ(Implies(StrPrefixOf(sl, p), And(Not(StrContains(r, StrT("/../"))), Not(StrSuffixOf(StrT("/.."), r)))))
	e.axiomQ(Implies(Eq(p, StrT("")), Eq(r, StrT("."))))
	e.axiomQ(Eq(uf("pathClean", StringS, r), r))
	e.axiomQ(Eq(uf("pathClean", StringS, sl), sl))
	e.axiomQ(Eq(uf("pathClean", StringS, StrT(".")), StrT(".")))
	e.axiomQ(Implies(Eq(p, sl), Eq(r, sl)))
	e.note("axiom:filepath.Clean (non-empty, no trailing slash unless root, no //, no /./, no trailing /., rooted iff input rooted, no .. when rooted, idempotent)")
	return r
}

func Iff(a, b *Term) *Term { return Eq(a, b) }

func (e *Engine) pathJoin(elems []*Term) *Term {
	if elems == nil {
		panic(outsideSubset("filepath.Join with symbolic argument count"))
	}
	// Join ignores empty elements, joins the rest with "/" and cleans.
	acc := StrT("")
	for _, el := range elems {
		acc = Ite(Eq(el, StrT("")), acc, Ite(Eq(acc, StrT("")), el, Concat(acc, StrT("/"), el)))
	}
	return Ite(Eq(acc, StrT("")), StrT(""), e.pathClean(acc))
}

func (e *Engine) pathDir(p *Term) *Term {
	if p.Op == "str" {
		return StrT(dirPath(p.SVal))
	}
	r := uf("pathDir", StringS, p)
	e.axiomQ(Neq(r, StrT("")))
	e.axiomQ(Eq(e.pathCleanNoAx(r), r))
	e.axiomQ(Implies(And(Neq(r, StrT(".")), Neq(r, StrT("/"))), And(StrPrefixOf(Concat(r, StrT("/")), p), Lt(StrLen(r), StrLen(p)))))
	e.axiomQ(Implies(Not(StrContains(p, StrT("/"))), Eq(r, StrT("."))))
	e.note("axiom:filepath.Dir (clean; a proper prefix followed by / unless . or /)")
	return r
}

func (e *Engine) pathCleanNoAx(p *Term) *Term {
	if p.Op == "uf:pathClean" {
		return p
	}
	return uf("pathClean", StringS, p)
}

func (e *Engine) pathBase(p *Term) *Term {
	if p.Op == "str" {
		return StrT(basePath(p.SVal))
	}
	r := uf("pathBase", StringS, p)
	e.axiomQ(Neq(r, StrT("")))
	e.axiomQ(Or(Eq(r, StrT("/")), Not(StrContains(r, StrT("/")))))
	e.note("axiom:filepath.Base (non-empty, no slash unless root)")
	return r
}

func (e *Engine) pathExt(p *Term) *Term {
	r := uf("pathExt", StringS, p)
	e.axiomQ(StrSuffixOf(r, p))
	e.axiomQ(Or(Eq(r, StrT("")), StrPrefixOf(StrT("."), r)))
	e.axiomQ(Not(StrContains(r, StrT("/"))))
	e.note("axiom:filepath.Ext (suffix; empty or starts with a dot; no slash)")
	return r
}

func cleanPath(s string) string { return pathpkgClean(s) }

// stringElems returns the elements of a []string of concrete length, else nil.
func (e *Engine) stringElems(st *State, s *Term) []*Term {
	n := SliceLen(s)
	if n.Op != "int" {
		return nil
	}
	e.leafComp("E:string", types.Typ[types.String])
	out := []*Term{}
	for i := int64(0); i < n.IVal.Int64(); i++ {
		out = append(out, Select(e.comp(st, "E:string"), ElemLoc(SliceBase(s), ElemIndex(SliceOff(s), IntT(i)))))
	}
	return out
}

func (e *Engine) joinStrings(st *State, s, sep *Term) *Term {
	if els := e.stringElems(st, s); els != nil && len(els) <= 8 {
		var parts []*Term
		for i, el := range els {
			if i > 0 {
				parts = append(parts, sep)
			}
			parts = append(parts, el)
		}
		return Concat(parts...)
	}
	e.leafComp("E:string", types.Typ[types.String])
	r := uf("strJoin", StringS, e.comp(st, "E:string"), SliceBase(s), SliceOff(s), SliceLen(s), sep)
	e.axiomQ(Implies(Eq(SliceLen(s), IntT(0)), Eq(r, StrT(""))))
	// Join(s, sep) ++ sep is the concatenation of item ++ sep over the items
	e.axiomQ(Implies(Gt(SliceLen(s), IntT(0)), Eq(Concat(r, sep), e.strEach(st, StrT(""), sep, s))))
	e.note("model:strings.Join as an uninterpreted fold over the slice")
	return r
}

// ---- fmt ----

func (e *Engine) sprintf(c *CallCtx, format, argSlice *Term) *Term {
	if format.Op != "str" {
		e.note("fmt: non-constant format")
		return uf("sprintfDyn", StringS, format)
	}
	vs := e.variadicArgs(c.rd, argSlice)
	var parts []*Term
	f := format.SVal
	ai := 0
	for i := 0; i < len(f); i++ {
		if f[i] != '%' {
			j := i
			for j < len(f) && f[j] != '%' {
				j++
			}
			parts = append(parts, StrT(f[i:j]))
			i = j - 1
			continue
		}
		i++
		if i >= len(f) {
			break
		}
		if f[i] == '%' {
			parts = append(parts, StrT("%"))
			continue
		}
		// flags/width are not used by the code in scope except plain verbs
		for i < len(f) && strings.ContainsRune("+-# 0123456789.", rune(f[i])) {
			e.note("fmt: flags ignored in " + f)
			i++
		}
		if ai >= len(vs) {
			parts = append(parts, StrT("%!"+string(f[i])+"(MISSING)"))
			continue
		}
		parts = append(parts, e.formatArg(c, f[i], vs[ai]))
		ai++
	}
	return Concat(parts...)
}

func (e *Engine) formatArg(c *CallCtx, verb byte, iv *Term) *Term {
	tag := IfaceTag(iv)
	if tag.Op != "int" {
		cases := e.possibleTags(tag)
		var acc *Term
		for i := len(cases) - 1; i >= 0; i-- {
			tc := cases[i]
			var v *Term
			if tc.tag < 0 {
				v = uf("fmtAny", StringS, IntT(int64(verb)), iv)
			} else {
				v = e.formatArg(c, verb, MkIface(IntT(int64(tc.tag)), IfaceVal(iv)))
			}
			if acc == nil {
				acc = v
			} else {
				acc = Ite(tc.cond, v, acc)
			}
		}
		return acc
	}
	t := int(tag.IVal.Int64())
	if t == 0 {
		return StrT("<nil>")
	}
	T := e.tr.typeOfTag(t)
	if _, ok := T.(*ghostType); ok || types.Implements(T, errorIface()) {
		if verb == 'v' || verb == 's' || verb == 'w' {
			return e.errorMessage(c, iv)
		}
	}
	val := IfaceVal(iv)
	switch e.tr.sortOf(T) {
	case StringS:
		s := Sel(AnyS, "a_str", "astr", val)
		switch verb {
		case 's', 'v':
			return s
		case 'q':
			return uf("fmtQuote", StringS, s)
		case 'x':
			return uf("hexEncode", StringS, s)
		}
	case IntS:
		x := Sel(AnyS, "a_int", "aint", val)
		if _, isBasic := T.Underlying().(*types.Basic); isBasic && !isOpaqueValueType(T) {
			switch verb {
			case 'd':
				return itoa(x)
			case 'v':
				if hasStringMethod(T) {
					return uf("fmtStringer:"+T.String(), StringS, x)
				}
				return itoa(x)
			case 'o':
				return uf("fmtOct", StringS, x)
			case 'x':
				return uf("fmtHex", StringS, x)
			}
		}
		return uf(fmt.Sprintf("fmt%c:%s", verb, shortTypeName(T.String())), StringS, x)
	case BoolS:
		return Ite(Sel(AnyS, "a_bool", "abool", val), StrT("true"), StrT("false"))
	case LocS:
		return uf(fmt.Sprintf("fmt%c:%s", verb, shortTypeName(T.String())), StringS, Sel(AnyS, "a_loc", "aloc", val))
	}
	return uf(fmt.Sprintf("fmt%c:%s", verb, shortTypeName(T.String())), StringS, iv)
}

func hasStringMethod(T types.Type) bool {
	ms := types.NewMethodSet(T)
	for i := 0; i < ms.Len(); i++ {
		if ms.At(i).Obj().Name() == "String" {
			return true
		}
	}
	return false
}

var errIfaceCache *types.Interface

func errorIface() *types.Interface {
	if errIfaceCache == nil {
		errIfaceCache = types.Universe.Lookup("error").Type().Underlying().(*types.Interface)
	}
	return errIfaceCache
}

func (e *Engine) errorMessage(c *CallCtx, iv *Term) *Term {
	m := errorIface().Method(0)
	r, _ := e.invoke(c.fr, c.instr, iv, types.Universe.Lookup("error").Type(), m, nil, types.Typ[types.String], c.rd.clone(), c.pc, c.label+".Error")
	if r == nil {
		return uf("errMsg", StringS, iv)
	}
	return r
}

func (e *Engine) errorf(c *CallCtx, format, argSlice *Term) *Term {
	msg := e.sprintf(c, format, argSlice)
	id := e.newObj(c.st)
	l := MkLoc(id, PNil)
	e.ghostSet(c.st, "errmsg", StringS, l, msg)
	var wrapped *Term = NilIface
	if format.Op == "str" {
		// locate the %w operand
		vs := e.variadicArgs(c.rd, argSlice)
		f := format.SVal
		ai := 0
		for i := 0; i+1 < len(f); i++ {
			if f[i] != '%' {
				continue
			}
			i++
			if f[i] == '%' {
				continue
			}
			for i < len(f) && strings.ContainsRune("+-# 0123456789.", rune(f[i])) {
				i++
			}
			if i < len(f) && f[i] == 'w' && ai < len(vs) {
				wrapped = vs[ai]
			}
			ai++
		}
	}
	e.ghostSet(c.st, "errwrap", IfaceS, l, wrapped)
	return MkIface(e.ghostTag("fmtError"), Ctor(AnyS, "a_box", id))
}

func init() {
	extraModels = append(extraModels, func(e *Engine) {
		e.models["strings.Index"] = func(c *CallCtx) *Term { return StrIndexOf(c.args[0], c.args[1], IntT(0)) }
	})
}

func init() {
	extraModels = append(extraModels, func(e *Engine) {
		e.models["strings.CutSuffix"] = func(c *CallCtx) *Term {
			s, suf := c.args[0], c.args[1]
			has := StrSuffixOf(suf, s)
			return c.ret(Ite(has, StrSubstr(s, IntT(0), Sub(StrLen(s), StrLen(suf))), s), has)
		}
		e.models["strings.CutPrefix"] = func(c *CallCtx) *Term {
			s, p := c.args[0], c.args[1]
			has := StrPrefixOf(p, s)
			return c.ret(Ite(has, StrSubstr(s, StrLen(p), Sub(StrLen(s), StrLen(p))), s), has)
		}
	})
}
