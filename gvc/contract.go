package main

// Contracts: parsing of the guarded comment-only files
// /repo/<pkg>/zz_contracts_verif.go, generation of the Go stub file that is
// type-checked together with the real package (in memory, via overlay), and
// symbolic evaluation of clauses.

import (
	"bytes"
	"fmt"
	"go/ast"
	"go/parser"
	"go/printer"
	"go/token"
	"go/types"
	"os"
	"path/filepath"
	"regexp"
	"sort"
	"strings"

	"golang.org/x/tools/go/ssa"
)

type Clause struct {
	Kind   string // requires ensures invariant modifies
	Props  []string
	Label  string
	Expr   string
	StubFn string // name of generated function
	Fn     *ssa.Function
	Line   int
}

type LoopSpec struct {
	Unroll  int // >0: unroll up to this many iterations with symbolic exits (bounded loops)
	Ordinal int
	Vars    string // "(i int, x string)"
	VarList []loopVar
	Invs    []*Clause
}

type loopVar struct {
	Name string // name in the invariant
	Type string
	Src  string // name of the variable in the code ("cur=items": Name cur, Src items)
}

type Contract struct {
	Pkg           string // import path
	Dir           string
	Header        string // func header as written
	Key           string // fn.String() of the target
	Inline        bool
	Callback      bool
	Pure          bool // result is a function of the (scalar) arguments: callers see UF(args)
	Trusted       bool // assumed contract: body is not verified (reported as such)
	Requires      []*Clause
	Expects       []*Clause // preconditions also checked where the function is inlined (call-site assertions)
	Cases         []*Clause // case split: the function is verified once per truth assignment of these conditions
	OnStore       []*Clause // assertions checked before every map update m[key] = val (params: m, key, val)
	onStoreParams string
	Assumes       []*Clause // modelling assumptions, assumed at entry (also when inlined); listed in the evidence
	Ensures       []*Clause
	Modifies      []*Clause
	Loops         map[int]*LoopSpec
	Frame         []string // props for frame obligations; nil = no frame obligations
	FrameOn       bool
	decl          *ast.FuncDecl
	recvName      string
	params        string // rendered "(a T, b U)" pieces
	paramN        []string
	results       string
	resultN       []string
	Line          int
	File          string
	id            int
	captures      []loopVar // closures: captured variables usable in clauses (by value)
}

type ContractFile struct {
	Pkg     string
	Dir     string
	PkgName string
	Imports []string
	Specs   []string
	Inlines []string
	Cs      []*Contract
}

var propRe = regexp.MustCompile(`^\[([A-Z0-9 ,]+)\]\s*`)
var labelRe = regexp.MustCompile(`^([A-Za-z0-9_.\-#]+):\s+`)

func parseContractFile(path, pkgPath string) (*ContractFile, error) {
	data, err := os.ReadFile(path)
	if err != nil {
		return nil, err
	}
	cf := &ContractFile{Pkg: pkgPath, Dir: filepath.Dir(path)}
	var lines []string
	var lineNos []int
	for i, l := range strings.Split(string(data), "\n") {
		t := strings.TrimRight(l, " \t")
		if strings.HasPrefix(t, "package ") {
			cf.PkgName = strings.TrimSpace(strings.TrimPrefix(t, "package "))
		}
		if strings.HasPrefix(t, "//@") {
			lines = append(lines, strings.TrimPrefix(strings.TrimPrefix(t, "//@"), " "))
			lineNos = append(lineNos, i+1)
		}
	}
	var cur *Contract
	var curLoop *LoopSpec
	var curClause *Clause
	inSpec := false
	var spec []string
	nextID := 0
	for i, l := range lines {
		ln := lineNos[i]
		if inSpec {
			spec = append(spec, l)
			if l == "}" {
				cf.Specs = append(cf.Specs, strings.Join(spec, "\n"))
				inSpec = false
				spec = nil
			}
			continue
		}
		tl := strings.TrimSpace(l)
		if tl == "" {
			continue
		}
		fields := strings.Fields(tl)
		kw := fields[0]
		rest := strings.TrimSpace(strings.TrimPrefix(tl, kw))
		switch {
		case kw == "import":
			cf.Imports = append(cf.Imports, rest)
			curClause = nil
		case kw == "spec":
			inSpec = true
			spec = []string{rest}
			if strings.HasSuffix(rest, "}") && strings.Count(rest, "{") == strings.Count(rest, "}") {
				cf.Specs = append(cf.Specs, rest)
				inSpec = false
				spec = nil
			}
			curClause = nil
		case kw == "inline" || kw == "func" || kw == "trusted" || kw == "pure" || kw == "callback":
			hdr := tl
			c := &Contract{Pkg: pkgPath, Dir: cf.Dir, Loops: map[int]*LoopSpec{}, Line: ln, File: path, id: nextID}
			nextID++
			if kw == "inline" {
				c.Inline = true
				hdr = rest
			}
			if kw == "callback" {
				// a callback checked where it is passed (e.g. by the WalkDir model): inlined, not verified stand-alone
				c.Inline = true
				c.Callback = true
				hdr = rest
			}
			if kw == "trusted" {
				c.Trusted = true
				hdr = rest
			}
			if kw == "pure" {
				c.Pure = true
				hdr = rest
			}
			c.Header = hdr
			if err := c.parseHeader(pkgPath); err != nil {
				return nil, fmt.Errorf("%s:%d: %v", path, ln, err)
			}
			cf.Cs = append(cf.Cs, c)
			cur = c
			curLoop = nil
			curClause = nil
		case kw == "onstore":
			// onstore (m T, key K, val V)  -- declares the parameter list
			if cur == nil {
				return nil, fmt.Errorf("%s:%d: onstore outside contract", path, ln)
			}
			cur.onStoreParams = strings.TrimSuffix(strings.TrimPrefix(strings.TrimSpace(rest), "("), ")")
			curClause = nil
			curLoop = nil
		case kw == "storeassert":
			if cur == nil || cur.onStoreParams == "" {
				return nil, fmt.Errorf("%s:%d: storeassert without onstore", path, ln)
			}
			cl := &Clause{Kind: "storeassert", Line: ln}
			if m := propRe.FindStringSubmatch(rest); m != nil {
				cl.Props = strings.Fields(strings.ReplaceAll(m[1], ",", " "))
				rest = rest[len(m[0]):]
			}
			if m := labelRe.FindStringSubmatch(rest); m != nil {
				cl.Label = m[1]
				rest = rest[len(m[0]):]
			}
			cl.Expr = rest
			cur.OnStore = append(cur.OnStore, cl)
			curClause = cl
		case kw == "requires" || kw == "ensures" || kw == "invariant" || kw == "modifies" || kw == "assume" || kw == "case" || kw == "expects":
			if cur == nil {
				return nil, fmt.Errorf("%s:%d: clause outside a function contract", path, ln)
			}
			cl := &Clause{Kind: kw, Line: ln}
			if m := propRe.FindStringSubmatch(rest); m != nil {
				cl.Props = strings.Fields(strings.ReplaceAll(m[1], ",", " "))
				rest = rest[len(m[0]):]
			}
			if kw != "modifies" {
				if m := labelRe.FindStringSubmatch(rest); m != nil {
					cl.Label = m[1]
					rest = rest[len(m[0]):]
				}
			}
			cl.Expr = rest
			switch kw {
			case "assume":
				if cl.Label == "" {
					cl.Label = fmt.Sprintf("assume%d", len(cur.Assumes))
				}
				cur.Assumes = append(cur.Assumes, cl)
			case "requires":
				if cl.Label == "" {
					cl.Label = fmt.Sprintf("pre%d", len(cur.Requires))
				}
				cur.Requires = append(cur.Requires, cl)
			case "case":
				cur.Cases = append(cur.Cases, cl)
			case "expects":
				if cl.Label == "" {
					cl.Label = fmt.Sprintf("expects%d", len(cur.Expects))
				}
				cur.Expects = append(cur.Expects, cl)
			case "ensures":
				if cl.Label == "" {
					cl.Label = fmt.Sprintf("post%d", len(cur.Ensures))
				}
				cur.Ensures = append(cur.Ensures, cl)
			case "modifies":
				cur.Modifies = append(cur.Modifies, cl)
				cur.FrameOn = true
				cur.Frame = append(cur.Frame, cl.Props...)
			case "invariant":
				if curLoop == nil {
					return nil, fmt.Errorf("%s:%d: invariant outside loop", path, ln)
				}
				if cl.Label == "" {
					cl.Label = fmt.Sprintf("inv%d", len(curLoop.Invs))
				}
				curLoop.Invs = append(curLoop.Invs, cl)
			}
			curClause = cl
		case kw == "frame":
			if cur == nil {
				return nil, fmt.Errorf("%s:%d: frame outside contract", path, ln)
			}
			cur.FrameOn = true
			if m := propRe.FindStringSubmatch(rest); m != nil {
				cur.Frame = append(cur.Frame, strings.Fields(strings.ReplaceAll(m[1], ",", " "))...)
			}
			curClause = nil
		case kw == "loop":
			if cur == nil {
				return nil, fmt.Errorf("%s:%d: loop outside contract", path, ln)
			}
			var ord int
			if _, err := fmt.Sscanf(fields[1], "%d", &ord); err != nil {
				return nil, fmt.Errorf("%s:%d: bad loop ordinal", path, ln)
			}
			ls := &LoopSpec{Ordinal: ord}
			if len(fields) >= 4 && fields[2] == "unroll" {
				fmt.Sscanf(fields[3], "%d", &ls.Unroll)
			}
			if i := strings.Index(rest, "("); i >= 0 {
				ls.Vars = strings.TrimSpace(rest[i:])
				inner := strings.TrimSuffix(strings.TrimPrefix(ls.Vars, "("), ")")
				for _, p := range strings.Split(inner, ",") {
					p = strings.TrimSpace(p)
					if p == "" {
						continue
					}
					sp := strings.SplitN(p, " ", 2)
					if len(sp) != 2 {
						return nil, fmt.Errorf("%s:%d: bad loop var %q", path, ln, p)
					}
					lv := loopVar{Name: sp[0], Type: strings.TrimSpace(sp[1]), Src: sp[0]}
					if i := strings.Index(sp[0], "="); i > 0 {
						lv.Name, lv.Src = sp[0][:i], sp[0][i+1:]
					}
					ls.VarList = append(ls.VarList, lv)
				}
			}
			cur.Loops[ord] = ls
			curLoop = ls
			curClause = nil
		default:
			// continuation of the previous clause
			if curClause == nil {
				return nil, fmt.Errorf("%s:%d: cannot parse %q", path, ln, tl)
			}
			curClause.Expr += " " + tl
		}
	}
	return cf, nil
}

func render(fset *token.FileSet, n any) string {
	var b bytes.Buffer
	printer.Fprint(&b, fset, n)
	return b.String()
}

func (c *Contract) parseHeader(pkgPath string) error {
	hdr := c.Header
	if i := strings.Index(hdr, " captures "); i >= 0 {
		inner := strings.TrimSpace(hdr[i+len(" captures "):])
		hdr = hdr[:i]
		inner = strings.TrimSuffix(strings.TrimPrefix(inner, "("), ")")
		for _, p := range splitTop(inner) {
			p = strings.TrimSpace(p)
			if p == "" {
				continue
			}
			sp := strings.SplitN(p, " ", 2)
			if len(sp) != 2 {
				return fmt.Errorf("bad capture %q", p)
			}
			c.captures = append(c.captures, loopVar{Name: sp[0], Type: strings.TrimSpace(sp[1]), Src: sp[0]})
		}
	}
	src := "package p\n" + hdr + " {}\n"
	src = strings.Replace(src, "$", "ᐅ", -1) // closures: name$1
	fset := token.NewFileSet()
	f, err := parser.ParseFile(fset, "hdr.go", src, 0)
	if err != nil {
		return fmt.Errorf("header %q: %v", c.Header, err)
	}
	fd := f.Decls[0].(*ast.FuncDecl)
	c.decl = fd
	name := strings.Replace(fd.Name.Name, "ᐅ", "$", -1)
	var ps []string
	if fd.Recv != nil && len(fd.Recv.List) == 1 {
		r := fd.Recv.List[0]
		rt := render(fset, r.Type)
		rn := "recv_"
		if len(r.Names) == 1 && r.Names[0].Name != "_" {
			rn = r.Names[0].Name
		}
		c.recvName = rn
		ps = append(ps, rn+" "+rt)
		c.paramN = append(c.paramN, rn)
		if strings.HasPrefix(rt, "*") {
			c.Key = "(*" + pkgPath + "." + rt[1:] + ")." + name
		} else {
			c.Key = "(" + pkgPath + "." + rt + ")." + name
		}
	} else {
		c.Key = pkgPath + "." + name
	}
	anon := 0
	for _, p := range fd.Type.Params.List {
		tt := render(fset, p.Type)
		if strings.HasPrefix(tt, "...") {
			tt = "[]" + tt[3:]
		}
		if len(p.Names) == 0 {
			anon++
			n := fmt.Sprintf("arg%d_", anon)
			ps = append(ps, n+" "+tt)
			c.paramN = append(c.paramN, n)
		}
		for _, n := range p.Names {
			nn := n.Name
			if nn == "_" {
				anon++
				nn = fmt.Sprintf("arg%d_", anon)
			}
			ps = append(ps, nn+" "+tt)
			c.paramN = append(c.paramN, nn)
		}
	}
	for _, cv := range c.captures {
		ps = append(ps, cv.Name+" "+cv.Type)
		c.paramN = append(c.paramN, cv.Name)
	}
	c.params = strings.Join(ps, ", ")
	var rs []string
	if fd.Type.Results != nil {
		k := 0
		for _, p := range fd.Type.Results.List {
			tt := render(fset, p.Type)
			if len(p.Names) == 0 {
				n := "result"
				if k > 0 {
					n = fmt.Sprintf("result%d", k)
				}
				rs = append(rs, n+" "+tt)
				c.resultN = append(c.resultN, n)
				k++
			}
			for _, n := range p.Names {
				rs = append(rs, n.Name+" "+tt)
				c.resultN = append(c.resultN, n.Name)
				k++
			}
		}
	}
	c.results = strings.Join(rs, ", ")
	return nil
}

const ghostDecls = `
func old[T any](x T) T { return x }
func implies(a, b bool) bool { return !a || b }
func iff(a, b bool) bool { return a == b }
func fresh(p any) bool { return true }
func allocated(p any) bool { return true }
func forall(lo, hi int, f func(i int) bool) bool { return true }
func exists(lo, hi int, f func(i int) bool) bool { return true }
func ghostStr(obj any, name string) string { return "" }
func ghostInt(obj any, name string) int { return 0 }
func ghostBool(obj any, name string) bool { return false }
func ghostAny(obj any, name string) any { return nil }
func ghostFlag(name string) bool { return false }
func globStr(name string) string { return "" }
func globInt(name string) int { return 0 }
func gvcModLoc(p any) {}
func gvcModGhost(obj any, name string) {}
func gvcModFlag(name string) {}
func gvcModMap(m any) {}
func gvcModElems(s any) {}
func gvcModGlob(name string) {}
func fsContent(path string) string { return "" }
func fsExists(path string) bool { return false }
func fsReadable(path string) bool { return false }
func fsIsDir(path string) bool { return false }
func fsMode(path string) gvc_fs.FileMode { return 0 }
func fsSize(path string) int64 { return 0 }
func fsMTime(path string) gvc_time.Time { return gvc_time.Time{} }
func fsLink(path string) string { return "" }
func fsIsLink(path string) bool { return false }
func ufStr(name string, args ...any) string { return "" }
func ufInt(name string, args ...any) int { return 0 }
func callStr(fn string, s string) string { return "" }
func renderedRange(expr string) string { return "" }
func inlined() bool { return false }
func visitedKey(m any, k string) bool { return false }
func sameArray(a, b any) bool { return false }
func within(fn string) bool { return false }
func foldStr(n int, f func(i int) string) string { return "" }
func foldInt(n int, f func(i int) int64) int64 { return 0 }
func lastBytes(fn string) []byte { return nil }
func lastStr(fn string) string { return "" }
func lastOK(fn string) bool { return false }
func nthBytes(fn string, k int) []byte { return nil }
func lastTime(fn string) gvc_time.Time { return gvc_time.Time{} }
func eachStr(pre string, list []string, suf string) string { return "" }
func callStrs(fn string, s []string) []string { return nil }
func ufBool(name string, args ...any) bool { return false }
func errIs(err, target error) bool { return false }
func errAsSigningFailure(err error) bool { return false }
func errMsg(err error) string { return "" }
func mapHas(m any, k any) bool { return false }
func bit(x uint32, j int) bool { return false }
func isNilFunc(f any) bool { return false }
func mergoOverride[T any](dst, src T) T { return dst }
func deepEq[T any](a, b T) bool { return false }
func forallKeys[M any](m M, f func(k string) bool) bool { return true }
func forallStr(f func(k string) bool) bool { return true }
func globErr(name string) error { return nil }
func readerContent(r any) string { return "" }
func dynType(x any) string { return "" }
`

func clauseFnName(c *Contract, kind string, loop int, idx int) string {
	s := fmt.Sprintf("gvcC%d_%s", c.id, kind)
	if loop >= 0 {
		s += fmt.Sprintf("_L%d", loop)
	}
	return fmt.Sprintf("%s_%d", s, idx)
}

// stub renders the generated Go file for one package.
func (cf *ContractFile) stub() string {
	var b strings.Builder
	b.WriteString("//go:build verif\n\n")
	b.WriteString("package " + cf.PkgName + "\n\n")
	b.WriteString("import (\n\tgvc_fs \"io/fs\"\n\tgvc_time \"time\"\n")
	seen := map[string]bool{}
	body := cf.allText()
	for _, im := range cf.Imports {
		if seen[im] {
			continue
		}
		seen[im] = true
		// import only what the clauses mention (unused imports are errors)
		fs := strings.Fields(im)
		p := strings.Trim(fs[len(fs)-1], "\"")
		base := p[strings.LastIndex(p, "/")+1:]
		if base == "v2" || base == "v3" {
			q := p[:strings.LastIndex(p, "/")]
			base = q[strings.LastIndex(q, "/")+1:]
		}
		if len(fs) == 2 {
			base = fs[0]
		}
		if strings.Contains(body, base+".") {
			b.WriteString("\t" + im + "\n")
		}
	}
	b.WriteString(")\n")
	b.WriteString("var _ gvc_fs.FileMode\nvar _ gvc_time.Time\n")
	b.WriteString(ghostDecls)
	for _, s := range cf.Specs {
		b.WriteString("\n" + "func " + strings.TrimPrefix(s, "func ") + "\n")
	}
	for _, c := range cf.Cs {
		join := func(parts ...string) string {
			var out []string
			for _, p := range parts {
				if p != "" {
					out = append(out, p)
				}
			}
			return strings.Join(out, ", ")
		}
		for i, cl := range c.Requires {
			cl.StubFn = clauseFnName(c, "req", -1, i)
			fmt.Fprintf(&b, "\nfunc %s(%s) bool { return %s }\n", cl.StubFn, c.params, cl.Expr)
		}
		for i, cl := range c.Expects {
			cl.StubFn = clauseFnName(c, "exp", -1, i)
			fmt.Fprintf(&b, "\nfunc %s(%s) bool { return %s }\n", cl.StubFn, c.params, cl.Expr)
		}
		for i, cl := range c.Cases {
			cl.StubFn = clauseFnName(c, "cas", -1, i)
			fmt.Fprintf(&b, "\nfunc %s(%s) bool { return %s }\n", cl.StubFn, c.params, cl.Expr)
		}
		for i, cl := range c.Assumes {
			cl.StubFn = clauseFnName(c, "asm", -1, i)
			fmt.Fprintf(&b, "\nfunc %s(%s) bool { return %s }\n", cl.StubFn, c.params, cl.Expr)
		}
		for i, cl := range c.OnStore {
			cl.StubFn = clauseFnName(c, "ons", -1, i)
			fmt.Fprintf(&b, "\nfunc %s(%s) bool { return %s }\n", cl.StubFn, join(c.params, c.onStoreParams), cl.Expr)
		}
		for i, cl := range c.Ensures {
			cl.StubFn = clauseFnName(c, "ens", -1, i)
			fmt.Fprintf(&b, "\nfunc %s(%s) bool { return %s }\n", cl.StubFn, join(c.params, c.results), cl.Expr)
		}
		for i, cl := range c.Modifies {
			cl.StubFn = clauseFnName(c, "mod", -1, i)
			var stmts []string
			for _, it := range splitTop(cl.Expr) {
				it = strings.TrimSpace(it)
				switch {
				case it == "":
				case strings.HasPrefix(it, "ghost("):
					stmts = append(stmts, "gvcModGhost("+strings.TrimPrefix(it, "ghost("))
				case strings.HasPrefix(it, "flag("):
					stmts = append(stmts, "gvcModFlag("+strings.TrimPrefix(it, "flag("))
				case strings.HasPrefix(it, "glob("):
					stmts = append(stmts, "gvcModGlob("+strings.TrimPrefix(it, "glob("))
				case strings.HasPrefix(it, "mapof("):
					stmts = append(stmts, "gvcModMap("+strings.TrimPrefix(it, "mapof("))
				case strings.HasPrefix(it, "elems("):
					stmts = append(stmts, "gvcModElems("+strings.TrimPrefix(it, "elems("))
				default:
					stmts = append(stmts, "gvcModLoc("+it+")")
				}
			}
			fmt.Fprintf(&b, "\nfunc %s(%s) { %s }\n", cl.StubFn, c.params, strings.Join(stmts, "; "))
		}
		var ords []int
		for o := range c.Loops {
			ords = append(ords, o)
		}
		sort.Ints(ords)
		for _, o := range ords {
			ls := c.Loops[o]
			var lv []string
			for _, v := range ls.VarList {
				lv = append(lv, v.Name+" "+v.Type)
			}
			for i, cl := range ls.Invs {
				cl.StubFn = clauseFnName(c, "inv", o, i)
				fmt.Fprintf(&b, "\nfunc %s(%s) bool { return %s }\n", cl.StubFn, join(c.params, strings.Join(lv, ", ")), cl.Expr)
			}
		}
	}
	return b.String()
}

func (cf *ContractFile) allText() string {
	var b strings.Builder
	for _, s := range cf.Specs {
		b.WriteString(s + "\n")
	}
	for _, c := range cf.Cs {
		nstubs := len(c.Requires) + len(c.Ensures) + len(c.Modifies) + len(c.Assumes) + len(c.OnStore) + len(c.Cases) + len(c.Expects)
		for _, cl := range c.Expects {
			b.WriteString(cl.Expr + "\n")
		}
		for _, cl := range c.Cases {
			b.WriteString(cl.Expr + "\n")
		}
		for _, cl := range c.OnStore {
			b.WriteString(cl.Expr + " " + c.onStoreParams + "\n")
		}
		for _, cl := range c.Assumes {
			b.WriteString(cl.Expr + "\n")
		}
		for _, l := range c.Loops {
			nstubs += len(l.Invs)
		}
		if nstubs > 0 {
			b.WriteString(c.params + "\n")
		}
		if len(c.Ensures) > 0 {
			b.WriteString(c.results + "\n")
		}
		for _, cl := range c.Requires {
			b.WriteString(cl.Expr + "\n")
		}
		for _, cl := range c.Ensures {
			b.WriteString(cl.Expr + "\n")
		}
		for _, cl := range c.Modifies {
			b.WriteString(cl.Expr + "\n")
		}
		for _, l := range c.Loops {
			b.WriteString(l.Vars + "\n")
			for _, cl := range l.Invs {
				b.WriteString(cl.Expr + "\n")
			}
		}
	}
	return b.String()
}

// splitTop splits on commas that are not nested in brackets or strings.
func splitTop(s string) []string {
	var out []string
	depth := 0
	inStr := false
	start := 0
	for i := 0; i < len(s); i++ {
		c := s[i]
		switch {
		case inStr:
			if c == '\\' {
				i++
			} else if c == '"' {
				inStr = false
			}
		case c == '"':
			inStr = true
		case c == '(' || c == '[' || c == '{':
			depth++
		case c == ')' || c == ']' || c == '}':
			depth--
		case c == ',' && depth == 0:
			out = append(out, s[start:i])
			start = i + 1
		}
	}
	out = append(out, s[start:])
	return out
}

// ---- ghost builtins ----

var ghostNames = map[string]bool{
	"old": true, "implies": true, "iff": true, "fresh": true, "allocated": true, "forall": true, "exists": true,
	"ghostStr": true, "ghostInt": true, "ghostBool": true, "ghostAny": true, "ghostFlag": true, "globStr": true, "globInt": true,
	"gvcModLoc": true, "gvcModGhost": true, "gvcModFlag": true, "gvcModMap": true, "gvcModGlob": true, "gvcModElems": true,
	"fsContent": true, "fsExists": true, "fsReadable": true, "fsIsDir": true, "fsMode": true, "fsSize": true, "fsMTime": true,
	"fsLink": true, "fsIsLink": true, "ufStr": true, "ufInt": true, "ufBool": true,
	"errIs": true, "errAsSigningFailure": true, "errMsg": true, "mapHas": true, "bit": true, "isNilFunc": true, "dynType": true, "mergoOverride": true, "deepEq": true, "forallKeys": true, "forallStr": true, "globErr": true, "readerContent": true, "callStr": true, "callStrs": true, "renderedRange": true, "inlined": true, "visitedKey": true, "sameArray": true, "within": true, "foldStr": true, "foldInt": true, "lastBytes": true, "lastStr": true, "lastOK": true, "nthBytes": true, "lastTime": true, "eachStr": true,
}

func ghostBuiltin(fn *ssa.Function) string {
	f := fn
	if o := fn.Origin(); o != nil {
		f = o
	}
	if f.Pkg == nil || f.Parent() != nil || f.Signature.Recv() != nil {
		return ""
	}
	if !ghostNames[f.Name()] {
		return ""
	}
	// must be declared in a generated stub file
	if f.Syntax() == nil {
		return ""
	}
	return f.Name()
}

func (e *Engine) constStr(t *Term) string {
	if t.Op != "str" {
		panic("ghost builtin needs a constant name")
	}
	return t.SVal
}

// objOf extracts a Loc key from an `any` argument (pointer, or boxed value).
func (e *Engine) objKey(iv *Term) *Term {
	v := IfaceVal(iv)
	if v.Op == "ctor:a_loc" {
		return v.Args[0]
	}
	if v.Op == "ctor:a_int" {
		return MkLoc(v.Args[0], PNil)
	}
	if v.Op == "ctor:a_box" {
		return MkLoc(v.Args[0], PNil)
	}
	if v.Op == "ctor:a_slice" {
		return SliceBase(v.Args[0])
	}
	if v.Op == "ite" {
		return Ite(v.Args[0], e.objKey(MkIface(IntT(0), v.Args[1])), e.objKey(MkIface(IntT(0), v.Args[2])))
	}
	// interface holding an interface value of unknown shape: key by pointer payload
	return Sel(AnyS, "a_loc", "aloc", v)
}

func (e *Engine) ghostCall(c *CallCtx, g string, fn *ssa.Function) *Term {
	st := c.rd
	switch g {
	case "old":
		return c.args[0]
	case "implies":
		return Implies(c.args[0], Restrict(c.args[1], c.args[0]))
	case "iff":
		return Eq(c.args[0], c.args[1])
	case "fresh", "allocated":
		base := e.allocBase(c.fr)
		v := IfaceVal(c.args[0])
		var obj *Term
		switch v.Op {
		case "ctor:a_loc":
			obj = LocObj(v.Args[0])
		case "ctor:a_int":
			obj = v.Args[0]
		case "ctor:a_slice":
			obj = LocObj(SliceBase(v.Args[0]))
		default:
			panic("fresh(): unsupported argument shape " + v.Op)
		}
		if g == "fresh" {
			return Ge(obj, base)
		}
		return And(Lt(obj, e.comp(st, allocComp)), Gt(obj, IntT(0)))
	case "forall", "exists":
		lo, hi := c.args[0], c.args[1]
		if c.args[2].Op != "int" {
			panic("forall: closure must be a literal")
		}
		cl := e.closureOf(c.args[2].IVal.Int64())
		j := BoundVar(IntS)
		var old *State
		if c.fr != nil {
			old = c.fr.oldSt
		}
		allOld := c.fr != nil && c.fr.oldSt != nil && (c.fr.allOld || c.fr.oldIns[c.instr])
		body, _, _ := e.execFunction(cl.fn, []*Term{j}, cl.bindings, c.rd.clone(), c.pc, c.fr, "", old, allOld)
		rng := And(Le(lo, j), Lt(j, hi))
		if g == "forall" {
			return Forall([]*Term{j}, Implies(rng, body))
		}
		return Not(Forall([]*Term{j}, Not(And(rng, body))))
	case "visitedKey":
		// the range loop over map m has already handed out key k
		m := e.payloadTerm(c.args[0])
		vs := ArrayOf(StringS, BoolS)
		e.declComp("X:visitedStr", ArrayOf(IntS, vs))
		return Select(Select(e.comp(st, "X:visitedStr"), m), c.args[1])
	case "sameArray":
		// two slices over the same backing array, starting at the same element
		a, b := e.payloadTerm(c.args[0]), e.payloadTerm(c.args[1])
		return And(Eq(SliceBase(a), SliceBase(b)), Eq(SliceOff(a), SliceOff(b)))
	case "within":
		// true when the clause is evaluated while the named function is being executed
		name := e.constStr(c.args[0])
		f := c.fr
		for f != nil {
			if f.clause && f.caller == nil {
				f = f.owner
				continue
			}
			if !f.clause && f.fn != nil && (shortFn(f.fn) == name || strings.HasSuffix(shortFn(f.fn), "."+name)) {
				return True
			}
			f = f.caller
		}
		return False
	case "inlined":
		// true when the function this clause belongs to is being executed inside a caller
		f := c.fr
		for f != nil && f.clause && f.caller != nil {
			f = f.caller
		}
		if f != nil && f.clause {
			f = f.owner // the frame of the function the clause belongs to
		}
		return BoolT(f != nil && f.caller != nil)
	case "foldStr", "foldInt":
		// foldStr(n, f) = f(0) ++ ... ++ f(n-1)   (foldInt: sum).  The fold is an
		// uninterpreted function of the captured values, of the heap components f
		// reads and of n, defined by its recurrence; the recurrence is instantiated
		// at the n asked for (enough for invariant-step and exit reasoning).
		n := c.args[0]
		if c.args[1].Op != "int" {
			panic("fold: closure must be a literal")
		}
		cl := e.closureOf(c.args[1].IVal.Int64())
		elem := func(k *Term) *Term {
			// evaluated without the current path condition: the recurrence is recorded globally.
			// Cells and boxes created by the clause itself (captured variables) are
			// visible even when the fold is evaluated in the old state.
			stE := c.rd.clone()
			if c.rd != c.st {
				for name, v := range c.st.comps {
					if strings.HasPrefix(name, "C:") || strings.HasPrefix(name, "B:") {
						stE.comps[name] = v
					}
				}
			}
			r, _, _ := e.execFunction(cl.fn, []*Term{k}, cl.bindings, stE, True, c.fr, "", nil, false)
			return r
		}
		probe := elem(Fresh("foldidx", IntS))
		sub := map[int]bool{}
		var walk func(t *Term)
		walk = func(t *Term) {
			if sub[t.id] {
				return
			}
			sub[t.id] = true
			for _, a := range t.Args {
				walk(a)
			}
		}
		// captured variables are passed by reference: the fold depends on their values
		var bvals []*Term
		for i, b := range cl.bindings {
			if i < len(cl.fn.FreeVars) {
				if pt, ok := cl.fn.FreeVars[i].Type().Underlying().(*types.Pointer); ok && b.Sort == LocS {
					if _, isStruct := isStructVal(pt.Elem()); !isStruct {
						// the cell is local to the clause: it lives in the caller's
						// current state even when the fold is evaluated in the old state
						b = e.loadPtr(c.st, pt.Elem(), b)
					}
				}
			}
			bvals = append(bvals, b)
			sub[b.id] = true // not searched: the value itself is an argument
		}
		walk(probe)
		var names []string
		// a component is read by f if its current value, or an older version of
		// it below stores that the reads skipped, occurs in the probe
		dependsOn := func(v *Term) bool {
			seenA := map[int]bool{}
			var down func(a *Term, d int) bool
			down = func(a *Term, d int) bool {
				if seenA[a.id] || d > 4000 {
					return false
				}
				seenA[a.id] = true
				if sub[a.id] {
					return true
				}
				switch a.Op {
				case "store":
					return down(a.Args[0], d+1)
				case "ite":
					return down(a.Args[1], d+1) || down(a.Args[2], d+1)
				}
				return false
			}
			return down(v, 0)
		}
		for name, srt := range e.compSorts {
			if srt.Kind != "array" {
				if v := e.comp(c.rd, name); sub[v.id] && !v.IsConst() {
					names = append(names, name)
				}
				continue
			}
			if dependsOn(e.comp(c.rd, name)) {
				names = append(names, name)
			}
		}
		sort.Strings(names)
		if os.Getenv("GVC_FOLDDBG") != "" {
			pp := newPrinter()
			pp.count(probe)
			fmt.Fprintf(os.Stderr, "FOLD %s names=%v probe=%s\n", cl.fn.String(), names, pp.expr(probe))
			if v, ok := c.rd.comps["E:string"]; ok {
				fmt.Fprintf(os.Stderr, "     rd.comps[E:string] = %s %v in-sub=%v\n", v.Op, v.SVal, sub[v.id])
			} else {
				_, has := e.compSorts["E:string"]
				fmt.Fprintf(os.Stderr, "     rd.comps[E:string] absent; comp()=%s declared=%v\n", e.comp(c.rd, "E:string").SVal, has)
			}
			for _, d := range pp.defs {
				fmt.Fprintf(os.Stderr, "     %s\n", d)
			}
		}
		var args []*Term
		var sorts []*Sort
		for _, b := range bvals {
			if b.Op == "tuple" {
				continue
			}
			args = append(args, b)
			sorts = append(sorts, b.Sort)
		}
		for _, nm := range names {
			v := e.comp(c.rd, nm)
			args = append(args, v)
			sorts = append(sorts, v.Sort)
		}
		res, unit := StringS, StrT("")
		if g == "foldInt" {
			res, unit = IntS, IntT(0)
		}
		u := DeclUF("fold:"+cl.fn.String()+":"+strings.Join(names, ","), res, append(sorts, IntS)...)
		F := func(k *Term) *Term { return App(u, append(append([]*Term{}, args...), k)...) }
		if n.Op == "int" && n.IVal.Sign() <= 0 {
			return unit // the empty fold
		}
		var foldAt func(n *Term, depth int) *Term
		foldAt = func(n *Term, depth int) *Term {
			if n.Op == "int" && n.IVal.Sign() <= 0 {
				return unit
			}
			if n.Op == "int" && n.IVal.Int64() <= 8 {
				// a short constant fold is written out
				acc := unit
				for k := int64(0); k < n.IVal.Int64(); k++ {
					if g == "foldInt" {
						acc = Add(acc, elem(IntT(k)))
					} else {
						acc = Concat(acc, elem(IntT(k)))
					}
				}
				return acc
			}
			if n.Op == "ite" && depth < 3 {
				return Ite(n.Args[0], foldAt(n.Args[1], depth+1), foldAt(n.Args[2], depth+1))
			}
			return nil
		}
		if r := foldAt(n, 0); r != nil {
			return r
		}
		fn := F(n)
		// n == m+1 >= 1 for an index m asked for before (the loop head): the
		// definition is unfolded once, so that the step reads F(m) ++ f(m)
		if nb, _ := linForm(n); nb != nil && KnownGe(n, IntT(1)) {
			prev := Sub(n, IntT(1))
			if e.pureSeen[F(prev).id] {
				if g == "foldInt" {
					return Add(F(prev), elem(prev))
				}
				return Concat(F(prev), elem(prev))
			}
		}
		if !e.pureSeen[fn.id] {
			e.pureSeen[fn.id] = true
			e.axiom(Implies(Le(n, IntT(0)), Eq(fn, unit)))
			prev := Sub(n, IntT(1))
			ek := elem(prev)
			var step *Term
			if g == "foldInt" {
				step = Add(F(prev), ek)
			} else {
				step = Concat(F(prev), ek)
			}
			e.axiom(Implies(Ge(n, IntT(1)), Eq(fn, step)))
		}
		return fn
	case "ghostStr":
		return e.ghostGet(st, e.constStr(c.args[1]), StringS, e.objKey(c.args[0]))
	case "ghostInt":
		return e.ghostGet(st, e.constStr(c.args[1]), IntS, e.objKey(c.args[0]))
	case "ghostBool":
		return e.ghostGet(st, e.constStr(c.args[1]), BoolS, e.objKey(c.args[0]))
	case "ghostAny":
		return e.ghostGet(st, e.constStr(c.args[1]), IfaceS, e.objKey(c.args[0]))
	case "ghostFlag":
		return e.flagGet(st, e.constStr(c.args[0]))
	case "globStr":
		return e.globGet(st, e.constStr(c.args[0]), StringS)
	case "globInt":
		return e.globGet(st, e.constStr(c.args[0]), IntS)
	case "gvcModLoc", "gvcModGhost", "gvcModFlag", "gvcModMap", "gvcModGlob", "gvcModElems":
		if e.modCollect != nil {
			e.collectMod(c, g)
		}
		return nil
	case "fsContent":
		return App(DeclUF("fsContent", StringS, StringS), c.args[0])
	case "fsExists":
		return App(DeclUF("fsExists", BoolS, StringS), c.args[0])
	case "fsReadable":
		return App(DeclUF("fsReadable", BoolS, StringS), c.args[0])
	case "fsIsDir":
		return App(DeclUF("fsIsDir", BoolS, StringS), c.args[0])
	case "fsMode":
		return App(DeclUF("fsMode", IntS, StringS), c.args[0])
	case "fsSize":
		return App(DeclUF("fsSize", IntS, StringS), c.args[0])
	case "fsMTime":
		return App(DeclUF("fsMTime", IntS, StringS), c.args[0])
	case "fsLink":
		return App(DeclUF("fsLink", StringS, StringS), c.args[0])
	case "fsIsLink":
		return App(DeclUF("fsIsLink", BoolS, StringS), c.args[0])
	case "ufStr", "ufInt", "ufBool":
		name := e.constStr(c.args[0])
		// the argument slice is packed by the caller just before the call: it
		// lives in the caller's current state even when the call itself is
		// evaluated in the old state
		vs := e.variadicArgs(c.st, c.args[1])
		var as []*Term
		var ss []*Sort
		for _, v := range vs {
			p := e.payloadTerm(v)
			as = append(as, p)
			ss = append(ss, p.Sort)
		}
		rs := map[string]*Sort{"ufStr": StringS, "ufInt": IntS, "ufBool": BoolS}[g]
		r := App(DeclUF(name, rs, ss...), as...)
		if name == "zeros" && g == "ufStr" && len(as) == 1 {
			// zeros(n): n zero bytes (as produced by make([]byte, n) and the archive models)
			e.axiom(Implies(Ge(as[0], IntT(0)), Eq(StrLen(r), as[0])))
		}
		return r
	case "nthBytes":
		// call-history ghost: the result of the k-th (0-based) inlined call of the named function
		name := e.constStr(c.args[0])
		if !strings.Contains(name, "/") && !strings.Contains(name, ".") && c.fr != nil && c.fr.fn.Pkg != nil {
			name = c.fr.fn.Pkg.Pkg.Path() + "." + name
		}
		if c.args[1].Op != "int" {
			panic("nthBytes: the ordinal must be a constant")
		}
		r, ok := e.callHist[fmt.Sprintf("call:%s#%d", name, c.args[1].IVal.Int64())]
		if !ok {
			e.note("no such call of " + name + " was observed")
			return Fresh("nocall", StringS)
		}
		if r.Op == "tuple" {
			r = r.Elems[0]
		}
		return r
	case "lastBytes", "lastStr", "lastTime", "lastOK":
		// call-history ghost: the result of the most recent call of the named function
		name := e.constStr(c.args[0])
		if !strings.Contains(name, "/") && !strings.Contains(name, ".") && c.fr != nil && c.fr.fn.Pkg != nil {
			name = c.fr.fn.Pkg.Pkg.Path() + "." + name
		}
		r, ok := e.callHist["last:"+name]
		if !ok {
			e.note("no call of " + name + " was observed")
			return Fresh("nocall", e.tr.sortOf(fn.Signature.Results().At(0).Type()))
		}
		if g == "lastOK" {
			// the error result of that call was nil
			if r.Op == "tuple" && len(r.Elems) >= 2 && r.Elems[len(r.Elems)-1].Sort == IfaceS {
				return Eq(r.Elems[len(r.Elems)-1], NilIface)
			}
			return True
		}
		if r.Op == "tuple" {
			r = r.Elems[0]
		}
		return r
	case "renderedRange":
		// call-history ghost: the text the template executor rendered for the range over the named pipeline
		r, ok := e.callHist["range:"+e.constStr(c.args[0])]
		if !ok {
			e.note("no template range over " + e.constStr(c.args[0]) + " was observed")
			return Fresh("norange", StringS)
		}
		return r
	case "eachStr":
		e.leafComp("E:string", types.Typ[types.String])
		return e.strEach(st, c.args[0], c.args[2], c.args[1])
	case "callStr", "callStrs":
		// call-history ghost: the value the named function returned when the
		// code under verification applied it to this argument (template function calls)
		name := e.constStr(c.args[0])
		if !strings.Contains(name, "/") && c.fr != nil && c.fr.fn.Pkg != nil {
			name = c.fr.fn.Pkg.Pkg.Path() + "." + name
		}
		if e.funcsByName[name] == nil {
			panic("contract refers to unknown function " + name)
		}
		r, ok := e.callHist[fmt.Sprintf("%s(%d)", name, c.args[1].id)]
		if !ok {
			e.note("no call of " + name + " with the argument named by the contract was observed")
			return Fresh("nocall", e.tr.sortOf(fn.Signature.Results().At(0).Type()))
		}
		return r
	case "errIs":
		return e.errorsIs(st, c.args[0], c.args[1])
	case "errAsSigningFailure":
		f, _ := e.errorsAs(st, c.args[0], types.NewPointer(e.namedType(nfpmPath, "ErrSigningFailure")))
		return f
	case "errMsg":
		return App(DeclUF("errMsg", StringS, IfaceS), c.args[0])
	case "mapHas":
		m := e.payloadTerm(c.args[0])
		k := e.payloadTerm(c.args[1])
		tag := IfaceTag(c.args[0])
		if tag.Op != "int" {
			panic("mapHas: map type unknown")
		}
		mt := e.tr.typeOfTag(int(tag.IVal.Int64())).Underlying().(*types.Map)
		has, _, _ := e.mapComps(mt)
		return And(Neq(m, IntT(0)), Select(Select(e.comp(st, has), m), k))
	case "bit":
		j := c.args[1]
		if j.Op != "int" {
			panic("bit: constant index")
		}
		return Eq(bitOf(c.args[0], uint(j.IVal.Int64())), IntT(1))
	case "mergoOverride":
		T := fn.Signature.Params().At(0).Type()
		// maps created by the merge live in the clause's own (private) state so
		// that a later deepEq of the same clause can read their contents
		return e.mergeValue(c, T, c.args[0], c.args[1], nil)
	case "deepEq":
		T := fn.Signature.Params().At(0).Type()
		return e.deepEq(st, T, c.args[0], c.args[1])
	case "globErr":
		return e.globGet(st, e.constStr(c.args[0]), IfaceS)
	case "readerContent":
		// what reading the reader to its end would deliver (evaluated on a copy
		// of the state: no effect)
		sub := *c
		sub.st = st.clone()
		d, _ := e.drain(&sub, c.args[0])
		return d
	case "forallStr":
		if c.args[0].Op != "int" {
			panic("forallStr: closure must be a literal")
		}
		cl := e.closureOf(c.args[0].IVal.Int64())
		k := BoundVar(StringS)
		var old *State
		if c.fr != nil {
			old = c.fr.oldSt
		}
		allOld := c.fr != nil && c.fr.oldSt != nil && (c.fr.allOld || c.fr.oldIns[c.instr])
		body, _, _ := e.execFunction(cl.fn, []*Term{k}, cl.bindings, c.rd.clone(), c.pc, c.fr, "", old, allOld)
		return Forall([]*Term{k}, body)
	case "forallKeys":
		mt, ok := fn.Signature.Params().At(0).Type().Underlying().(*types.Map)
		if !ok {
			panic("forallKeys: first argument must be a map")
		}
		has, _, _ := e.mapComps(mt)
		if c.args[1].Op != "int" {
			panic("forallKeys: closure must be a literal")
		}
		cl := e.closureOf(c.args[1].IVal.Int64())
		k := BoundVar(e.tr.sortOf(mt.Key()))
		var old *State
		if c.fr != nil {
			old = c.fr.oldSt
		}
		allOld := c.fr != nil && c.fr.oldSt != nil && (c.fr.allOld || c.fr.oldIns[c.instr])
		body, _, _ := e.execFunction(cl.fn, []*Term{k}, cl.bindings, c.rd.clone(), c.pc, c.fr, "", old, allOld)
		present := And(Neq(c.args[0], IntT(0)), Select(Select(e.comp(st, has), c.args[0]), k))
		return Forall([]*Term{k}, Implies(present, body))
	case "isNilFunc":
		return Eq(e.payloadTerm(c.args[0]), IntT(0))
	case "dynType":
		tag := IfaceTag(c.args[0])
		var acc *Term = StrT("?")
		for _, tc := range e.possibleTags(tag) {
			n := "?"
			if tc.tag == 0 {
				n = "nil"
			} else if tc.tag > 0 {
				n = e.tr.typeOfTag(tc.tag).String()
			}
			acc = Ite(tc.cond, StrT(n), acc)
		}
		return acc
	}
	panic("ghost builtin " + g)
}

func (e *Engine) payloadTerm(iv *Term) *Term {
	v := IfaceVal(iv)
	if strings.HasPrefix(v.Op, "ctor:a_") && len(v.Args) == 1 {
		return v.Args[0]
	}
	panic("payloadTerm: symbolic interface payload (" + v.Op + ")")
}

// variadicArgs reads the elements of a []any with concrete length.
func (e *Engine) variadicArgs(st *State, s *Term) []*Term {
	n := SliceLen(s)
	if n.Op != "int" {
		panic("variadic slice of symbolic length")
	}
	var out []*Term
	comp := "E:any"
	e.declComp(comp, ArrayOf(LocS, IfaceS))
	e.declComp("E:interface{}", ArrayOf(LocS, IfaceS))
	for i := int64(0); i < n.IVal.Int64(); i++ {
		l := ElemLoc(SliceBase(s), ElemIndex(SliceOff(s), IntT(i)))
		v := Select(e.comp(st, comp), l)
		if v.Op == "select" {
			v = Select(e.comp(st, "E:interface{}"), l)
		}
		out = append(out, v)
	}
	return out
}

func (e *Engine) allocBase(fr *Frame) *Term {
	for f := fr; f != nil; f = f.caller {
		if f.freshBase != nil {
			return f.freshBase
		}
	}
	for f := fr; f != nil; f = f.caller {
		if f.oldSt != nil {
			return e.comp(f.oldSt, allocComp)
		}
	}
	return e.alloc0
}

// ---- clause evaluation ----

func (e *Engine) clauseFn(cl *Clause) *ssa.Function {
	if cl.Fn == nil {
		panic("clause without compiled stub: " + cl.StubFn)
	}
	return cl.Fn
}

func (e *Engine) evalClause(fr *Frame, cl *Clause, args, extra []*Term, st, oldSt *State, pc *Term) *Term {
	fn := e.clauseFn(cl)
	all := append(append([]*Term{}, args...), extra...)
	root := &Frame{clause: true, oldSt: nil, caller: nil, owner: fr}
	if cl.Kind == "invariant" {
		// in loop invariants, fresh(x) means: allocated since the entry of the
		// function under verification (not of an inlined callee)
		root.freshBase = e.alloc0
	}
	if fr != nil {
		root.path = fr.path
	}
	e.quiet++
	defer func() { e.quiet-- }()
	r, _, _ := e.execFunction(fn, all, nil, st.clone(), pc, root, "", oldSt, false)
	if r == nil {
		panic("clause " + cl.StubFn + " has no value")
	}
	return r
}

func (e *Engine) evalModifies(fr *Frame, cl *Clause, args []*Term, st *State, pc *Term) []modTarget {
	fn := e.clauseFn(cl)
	root := &Frame{clause: true}
	var out []modTarget
	save := e.modCollect
	e.modCollect = &out
	e.quiet++
	defer func() { e.quiet--; e.modCollect = save }()
	e.execFunction(fn, args, nil, st.clone(), pc, root, "", st, false)
	return out
}

func (e *Engine) collectMod(c *CallCtx, g string) {
	switch g {
	case "gvcModLoc":
		iv := c.args[0]
		tag := IfaceTag(iv)
		if tag.Op != "int" {
			panic("modifies: argument type unknown")
		}
		T := e.tr.typeOfTag(int(tag.IVal.Int64()))
		pt, ok := T.Underlying().(*types.Pointer)
		if !ok {
			panic("modifies: expected &location, got " + T.String())
		}
		*e.modCollect = append(*e.modCollect, modTarget{kind: "loc", loc: e.payloadTerm(iv), t: pt.Elem()})
	case "gvcModGhost":
		*e.modCollect = append(*e.modCollect, modTarget{kind: "ghost", loc: e.objKey(c.args[0]), name: e.constStr(c.args[1])})
	case "gvcModFlag", "gvcModGlob":
		*e.modCollect = append(*e.modCollect, modTarget{kind: "flag", name: e.constStr(c.args[0])})
	case "gvcModMap":
		iv := c.args[0]
		tag := IfaceTag(iv)
		T := e.tr.typeOfTag(int(tag.IVal.Int64()))
		*e.modCollect = append(*e.modCollect, modTarget{kind: "map", loc: e.payloadTerm(iv), t: T})
	case "gvcModElems":
		// every element of the backing array of a slice
		iv := c.args[0]
		tag := IfaceTag(iv)
		if tag.Op != "int" {
			panic("modifies elems(): slice type unknown")
		}
		T := e.tr.typeOfTag(int(tag.IVal.Int64()))
		*e.modCollect = append(*e.modCollect, modTarget{kind: "elems", loc: SliceBase(e.payloadTerm(iv)), t: T})
	}
}

// oldSlice marks the instructions that feed old(...) arguments.
func (e *Engine) oldSlice(fn *ssa.Function) map[ssa.Instruction]bool {
	out := map[ssa.Instruction]bool{}
	var mark func(v ssa.Value)
	mark = func(v ssa.Value) {
		ins, ok := v.(ssa.Instruction)
		if !ok || out[ins] {
			return
		}
		if _, isPhi := v.(*ssa.Phi); isPhi {
			out[ins] = true
		}
		out[ins] = true
		for _, op := range ins.Operands(nil) {
			if *op != nil {
				mark(*op)
			}
		}
	}
	for _, b := range fn.Blocks {
		for _, ins := range b.Instrs {
			call, ok := ins.(*ssa.Call)
			if !ok {
				continue
			}
			if f, ok := call.Call.Value.(*ssa.Function); ok && ghostBuiltin(f) == "old" {
				for _, a := range call.Call.Args {
					mark(a)
				}
			}
		}
	}
	if len(out) == 0 {
		return nil
	}
	return out
}

// ---- loop invariants ----

func (e *Engine) loopInvariants(fn *ssa.Function, ordinal int) *LoopSpec {
	c := e.contracts[fnName(fn)]
	if c == nil {
		return nil
	}
	return c.Loops[ordinal]
}

func (e *Engine) loopVarValues(fr *Frame, li *loopInfo, ls *LoopSpec, st *State) []*Term {
	var out []*Term
	for _, v := range ls.VarList {
		var val *Term
		for _, ins := range li.header.Instrs {
			phi, ok := ins.(*ssa.Phi)
			if !ok {
				break
			}
			n := phi.Comment
			if n == v.Src || (v.Src == "rangeint" && n == "rangeint.iter") {
				val = st.vals[phi]
			}
			if v.Src == "iter" && n == "rangeindex" {
				val = Add(st.vals[phi], IntT(1))
			}
		}
		if val == nil {
			// a variable that lives in memory (address-taken or named result)
			for _, b := range fr.fn.Blocks {
				for _, ins := range b.Instrs {
					if a, ok := ins.(*ssa.Alloc); ok && a.Comment == v.Src {
						if l, ok := st.vals[a]; ok {
							val = e.loadPtr(st, a.Type().(*types.Pointer).Elem(), l)
						}
					}
				}
			}
		}
		if val == nil {
			// any named local whose value is available (debug references)
			for _, b := range fr.fn.Blocks {
				for _, ins := range b.Instrs {
					if d, ok := ins.(*ssa.DebugRef); ok && !d.IsAddr {
						if id, ok := d.Expr.(*ast.Ident); ok && id.Name == v.Src {
							if x, ok := st.vals[d.X]; ok && val == nil {
								val = x
							}
						}
					}
				}
			}
		}
		if val == nil {
			// the variable may have been renamed: a loop-carried value or a local in
			// memory is still identified when it is the only one of the declared type
			want := strings.ReplaceAll(v.Type, " ", "")
			typeStr := func(t types.Type) string {
				return strings.ReplaceAll(types.TypeString(t, func(p *types.Package) string { return p.Name() }), " ", "")
			}
			var cands []*Term
			for _, ins := range li.header.Instrs {
				phi, ok := ins.(*ssa.Phi)
				if !ok {
					break
				}
				if typeStr(phi.Type()) == want && phi.Comment != "rangeindex" {
					if x, ok := st.vals[phi]; ok {
						cands = append(cands, x)
					}
				}
			}
			if len(cands) == 0 {
				for _, b := range fr.fn.Blocks {
					for _, ins := range b.Instrs {
						if a, ok := ins.(*ssa.Alloc); ok && typeStr(a.Type().(*types.Pointer).Elem()) == want {
							if l, ok := st.vals[a]; ok {
								cands = append(cands, e.loadPtr(st, a.Type().(*types.Pointer).Elem(), l))
							}
						}
					}
				}
			}
			if len(cands) == 1 {
				val = cands[0]
				e.note("loop variable " + v.Src + " of " + shortFn(fr.fn) + " identified by its type (not found by name)")
			}
		}
		if val == nil {
			panic(outsideSubset(fmt.Sprintf("loop %d of %s: no loop variable %q", li.ordinal, shortFn(fr.fn), v.Src)))
		}
		out = append(out, val)
	}
	return out
}

func (e *Engine) frameArgs(fr *Frame) []*Term {
	var args []*Term
	for _, p := range fr.fn.Params {
		args = append(args, fr.entrySt.vals[p])
	}
	if ct := e.contracts[fnName(fr.fn)]; ct != nil && len(ct.captures) > 0 {
		var bs []*Term
		for _, fv := range fr.fn.FreeVars {
			bs = append(bs, fr.entrySt.vals[fv])
		}
		args = append(args, e.captureVals(ct, fr.fn, bs, fr.curSt)...)
	}
	return args
}

// captureVals returns the current values of the captured variables a closure
// contract declares (free variables are captured by reference).
func (e *Engine) captureVals(ct *Contract, fn *ssa.Function, bindings []*Term, st *State) []*Term {
	var out []*Term
	for _, cv := range ct.captures {
		found := false
		for i, fv := range fn.FreeVars {
			if fv.Name() != cv.Name {
				continue
			}
			found = true
			if pt, ok := fv.Type().Underlying().(*types.Pointer); ok {
				out = append(out, e.loadPtr(st, pt.Elem(), bindings[i]))
			} else {
				out = append(out, bindings[i])
			}
		}
		if !found {
			panic(fmt.Sprintf("closure %s does not capture %q", fn, cv.Name))
		}
	}
	return out
}

func (e *Engine) checkInvariants(fr *Frame, li *loopInfo, ls *LoopSpec, st *State, pc *Term, kind string) {
	if e.quiet > 0 || fr.clause {
		return
	}
	lv := e.loopVarValues(fr, li, ls, st)
	fr.curSt = st
	for _, cl := range ls.Invs {
		g := e.evalClause(fr, cl, e.frameArgs(fr), lv, st, fr.entrySt, pc)
		e.addObl(fr, kind, fmt.Sprintf("%s.loop%d.%s", shortFn(fr.fn), li.ordinal, cl.Label), cl.Props, pc, g, fmt.Sprintf("%s:%d", strings.TrimPrefix(e.contracts[fnName(fr.fn)].File, "/repo/"), cl.Line))
	}
}

func (e *Engine) assumeInvariants(fr *Frame, li *loopInfo, ls *LoopSpec, st *State, pc *Term) {
	lv := e.loopVarValues(fr, li, ls, st)
	fr.curSt = st
	for _, cl := range ls.Invs {
		g := e.evalClause(fr, cl, e.frameArgs(fr), lv, st, fr.entrySt, pc)
		e.assume(pc, g)
		// an invariant of the form  <havocked ghost cell> == <term>  determines
		// that cell at the loop head: later reads see the term itself
		for _, cj := range conj(g) {
			// [guard ==>] cell == term
			cond, eq := True, cj
			if cj.Op == "or" {
				var others []*Term
				eq = nil
				for _, a := range cj.Args {
					if a.Op == "=" && eq == nil && len(a.Args) == 2 && (a.Args[0].Op == "select" || a.Args[1].Op == "select") {
						eq = a
					} else {
						others = append(others, Not(a))
					}
				}
				if eq == nil {
					continue
				}
				cond = And(others...)
			}
			if eq.Op != "=" || len(eq.Args) != 2 {
				continue
			}
			for k := 0; k < 2; k++ {
				l, r := eq.Args[k], eq.Args[1-k]
				if l.Op != "select" || l.Args[0].Op != "sym" || !strings.HasPrefix(l.Args[0].SVal, "hv:") || containsTerm(r, l.Args[0]) || containsTerm(cond, l.Args[0]) {
					continue
				}
				for name, v := range st.comps {
					if v == l.Args[0] {
						st.comps[name] = Store(v, l.Args[1], Ite(cond, r, l))
					}
				}
				break
			}
		}
	}
}

// replayClause renders an executable variant of an ensures clause for the
// replay test: every parameter has a second, pre-state copy <name>_pre, and
// old(e) is replaced by e over the pre-state copies.
func (c *Contract) replayClause(cl *Clause, fnName string) (string, error) {
	expr, err := parser.ParseExpr(cl.Expr)
	if err != nil {
		return "", err
	}
	params := map[string]bool{}
	for _, p := range c.paramN {
		params[p] = true
	}
	var rewrite func(n ast.Node, inOld bool) ast.Node
	rewrite = func(n ast.Node, inOld bool) ast.Node { return n }
	_ = rewrite
	var walk func(e ast.Expr, inOld bool) ast.Expr
	walk = func(e ast.Expr, inOld bool) ast.Expr {
		switch x := e.(type) {
		case *ast.Ident:
			if inOld && params[x.Name] {
				return ast.NewIdent(x.Name + "_pre")
			}
			return x
		case *ast.CallExpr:
			if id, ok := x.Fun.(*ast.Ident); ok && id.Name == "old" && len(x.Args) == 1 {
				return &ast.ParenExpr{X: walk(x.Args[0], true)}
			}
			nx := *x
			nx.Fun = walk(x.Fun, inOld)
			nx.Args = nil
			for _, a := range x.Args {
				nx.Args = append(nx.Args, walk(a, inOld))
			}
			return &nx
		case *ast.BinaryExpr:
			nx := *x
			nx.X, nx.Y = walk(x.X, inOld), walk(x.Y, inOld)
			return &nx
		case *ast.UnaryExpr:
			nx := *x
			nx.X = walk(x.X, inOld)
			return &nx
		case *ast.ParenExpr:
			nx := *x
			nx.X = walk(x.X, inOld)
			return &nx
		case *ast.SelectorExpr:
			nx := *x
			nx.X = walk(x.X, inOld)
			return &nx
		case *ast.IndexExpr:
			nx := *x
			nx.X, nx.Index = walk(x.X, inOld), walk(x.Index, inOld)
			return &nx
		case *ast.StarExpr:
			nx := *x
			nx.X = walk(x.X, inOld)
			return &nx
		case *ast.SliceExpr:
			nx := *x
			nx.X = walk(x.X, inOld)
			return &nx
		case *ast.FuncLit:
			return x // closures inside old() are not rewritten (rare)
		case *ast.CompositeLit:
			return x
		}
		return e
	}
	ne := walk(expr, false)
	var pre []string
	for _, p := range strings.Split(c.params, ", ") {
		if p == "" {
			continue
		}
		sp := strings.SplitN(p, " ", 2)
		pre = append(pre, sp[0]+"_pre "+sp[1])
	}
	all := []string{}
	if c.params != "" {
		all = append(all, c.params)
	}
	all = append(all, pre...)
	if c.results != "" {
		all = append(all, c.results)
	}
	return fmt.Sprintf("func %s(%s) bool { return %s }\n", fnName, strings.Join(all, ", "), render(token.NewFileSet(), ne)), nil
}
