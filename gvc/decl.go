package main

// Declaration-level obligations: facts about the declarations of the program
// that a property depends on and that no function contract can express.
// They are decided by the generator itself (no solver) on the typed program
// loaded for this run, and are reported like every other obligation.

import (
	"fmt"
	"go/types"
	"reflect"
	"sort"
	"strings"

	"golang.org/x/tools/go/ssa"
)

// configTypes: the named types reachable from nfpm.Config through fields,
// pointers, slices, arrays and maps.
func (e *Engine) configTypes() []*types.Named {
	root := e.namedType(nfpmPath, "Config")
	seen := map[string]*types.Named{}
	var walk func(t types.Type)
	walk = func(t types.Type) {
		switch x := t.(type) {
		case *types.Named:
			k := x.String()
			if _, ok := seen[k]; ok {
				return
			}
			if x.Obj().Pkg() == nil || !strings.HasPrefix(x.Obj().Pkg().Path(), nfpmPath) {
				return
			}
			seen[k] = x
			walk(x.Underlying())
		case *types.Pointer:
			walk(x.Elem())
		case *types.Slice:
			walk(x.Elem())
		case *types.Array:
			walk(x.Elem())
		case *types.Map:
			walk(x.Key())
			walk(x.Elem())
		case *types.Struct:
			for i := 0; i < x.NumFields(); i++ {
				walk(x.Field(i).Type())
			}
		}
	}
	if n, ok := root.(*types.Named); ok {
		walk(n)
	}
	var out []*types.Named
	var ks []string
	for k := range seen {
		ks = append(ks, k)
	}
	sort.Strings(ks)
	for _, k := range ks {
		out = append(out, seen[k])
	}
	return out
}

func containsStruct(t types.Type, depth int) bool {
	if depth > 6 {
		return false
	}
	switch x := t.Underlying().(type) {
	case *types.Struct:
		return true
	case *types.Pointer:
		return containsStruct(x.Elem(), depth+1)
	case *types.Slice:
		return containsStruct(x.Elem(), depth+1)
	case *types.Array:
		return containsStruct(x.Elem(), depth+1)
	case *types.Map:
		return containsStruct(x.Elem(), depth+1)
	}
	return false
}

// declObligations returns the declaration obligations of a property.
func (e *Engine) declObligations(prop string) []*Obligation {
	if prop != "C16" && prop != "C17" {
		return nil
	}
	// Strict decoding of nested documents: yaml.v3 rejects undefined keys at
	// every level when the decoder has KnownFields(true) -- unless a type of
	// the configuration tree has a decoding hook that re-decodes its node with
	// (*yaml.Node).Decode into a struct, which never carries that setting.
	var bad []string
	for _, n := range e.configTypes() {
		for _, recv := range []types.Type{n, types.NewPointer(n)} {
			ms := e.prog.MethodSets.MethodSet(recv)
			for i := 0; i < ms.Len(); i++ {
				sel := ms.At(i)
				if sel.Obj().Name() != "UnmarshalYAML" {
					continue
				}
				fn := e.prog.MethodValue(sel)
				if fn == nil {
					continue
				}
				seen := map[*ssa.Function]bool{}
				var scan func(f *ssa.Function, depth int)
				scan = func(f *ssa.Function, depth int) {
					if f == nil || seen[f] || depth > 4 || f.Blocks == nil {
						return
					}
					seen[f] = true
					for _, b := range f.Blocks {
						for _, ins := range b.Instrs {
							ci, ok := ins.(ssa.CallInstruction)
							if !ok {
								continue
							}
							callee := ci.Common().StaticCallee()
							if callee == nil {
								continue
							}
							if callee.String() == "(*gopkg.in/yaml.v3.Node).Decode" && len(ci.Common().Args) == 2 {
								at := ci.Common().Args[1].Type()
								if mi, ok := ci.Common().Args[1].(*ssa.MakeInterface); ok {
									at = mi.X.Type()
								}
								if containsStruct(at, 0) {
									bad = append(bad, fmt.Sprintf("%s re-decodes its node into %s without strict mode (%s)", fn.String(), at.String(), e.fset.Position(ins.Pos())))
								}
							}
							if e.isOurs(callee) {
								scan(callee, depth+1)
							}
						}
					}
				}
				scan(fn, 0)
			}
		}
	}
	o := &Obligation{ID: "nfpm.Config/decl:nested-decoding-stays-strict", Kind: "decl", Props: []string{prop}, Fn: "nfpm.Config", Goal: True, PC: True, Pos: "nfpm.go"}
	if len(bad) == 0 {
		o.Status = "static"
	} else {
		sort.Strings(bad)
		o.Status = "refuted"
		o.Model = strings.Join(bad, "\n")
		o.Goal = False
	}
	out := []*Obligation{o}
	if prop == "C17" {
		out = append(out, e.tagPairing(prop))
	}
	return out
}

// tagPairing: the schema is reflected from the json tags, the parser reads
// the yaml tags of the same structs.  The key paths agree iff every exported
// field of every configuration type carries the same key name (and the same
// inline / ignored status) in both tags.
func (e *Engine) tagPairing(prop string) *Obligation {
	var bad []string
	for _, n := range e.configTypes() {
		st, ok := n.Underlying().(*types.Struct)
		if !ok {
			continue
		}
		for i := 0; i < st.NumFields(); i++ {
			f := st.Field(i)
			if !f.Exported() {
				continue
			}
			tag := reflect.StructTag(st.Tag(i))
			y, yok := tag.Lookup("yaml")
			j, jok := tag.Lookup("json")
			name := func(v string) (string, bool) {
				parts := strings.Split(v, ",")
				inline := false
				for _, p := range parts[1:] {
					if p == "inline" {
						inline = true
					}
				}
				return parts[0], inline
			}
			yn, yi := name(y)
			jn, ji := name(j)
			if !yok && !jok {
				// neither tag: yaml lower-cases the field name, encoding/json keeps it
				bad = append(bad, fmt.Sprintf("%s.%s has neither a yaml nor a json tag (the two libraries derive different key names)", n.Obj().Name(), f.Name()))
				continue
			}
			if yok != jok || yn != jn || yi != ji {
				bad = append(bad, fmt.Sprintf("%s.%s: yaml:%q json:%q", n.Obj().Name(), f.Name(), y, j))
			}
		}
	}
	o := &Obligation{ID: "nfpm.Config/decl:yaml-and-json-key-names-agree", Kind: "decl", Props: []string{prop}, Fn: "nfpm.Config", Goal: True, PC: True, Pos: "nfpm.go"}
	if len(bad) == 0 {
		o.Status = "static"
	} else {
		sort.Strings(bad)
		o.Status = "refuted"
		o.Model = strings.Join(bad, "\n")
		o.Goal = False
	}
	return o
}
