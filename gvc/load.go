package main

import (
	"fmt"
	"go/token"
	"os"
	"path/filepath"
	"sort"
	"strings"

	"golang.org/x/tools/go/packages"
	"golang.org/x/tools/go/ssa"
	"golang.org/x/tools/go/ssa/ssautil"
)

// repoDir is the tree under verification: /repo, or (self-test only) a scratch
// copy of it with a seeded change applied, named by GVC_REPO.
var repoDir = func() string {
	if d := os.Getenv("GVC_REPO"); d != "" {
		return d
	}
	return "/repo"
}()

const contractFileName = "zz_contracts_verif.go"
const stubFileName = "zz_gvc_stubs_verif.go"

type Loaded struct {
	prog   *ssa.Program
	fset   *token.FileSet
	pkgs   []*packages.Package
	spkgs  map[string]*ssa.Package
	files  []*ContractFile
	stubs  map[string]string
	errors []string
}

func pkgPathOfDir(dir string) string {
	rel, _ := filepath.Rel(repoDir, dir)
	if rel == "." {
		return nfpmPath
	}
	return nfpmPath + "/" + filepath.ToSlash(rel)
}

func findContractFiles() []string {
	var out []string
	filepath.Walk(repoDir, func(p string, info os.FileInfo, err error) error {
		if err != nil {
			return nil
		}
		if info.IsDir() && (info.Name() == ".git" || info.Name() == "www" || info.Name() == "testdata") {
			return filepath.SkipDir
		}
		if !info.IsDir() && info.Name() == contractFileName {
			out = append(out, p)
		}
		return nil
	})
	sort.Strings(out)
	return out
}

func load() (*Loaded, error) {
	ld := &Loaded{stubs: map[string]string{}, spkgs: map[string]*ssa.Package{}}
	overlay := map[string][]byte{}
	for _, p := range findContractFiles() {
		cf, err := parseContractFile(p, pkgPathOfDir(filepath.Dir(p)))
		if err != nil {
			return nil, err
		}
		ld.files = append(ld.files, cf)
		if spec := docArchSpec(cf.Pkg); spec != "" {
			cf.Specs = append(cf.Specs, spec)
		}
		stub := cf.stub()
		sp := filepath.Join(cf.Dir, stubFileName)
		overlay[sp] = []byte(stub)
		ld.stubs[sp] = stub
	}
	cfg := &packages.Config{
		Mode:       packages.LoadAllSyntax,
		Dir:        repoDir,
		BuildFlags: []string{"-tags=verif"},
		Overlay:    overlay,
		Env:        append(os.Environ(), "GOFLAGS=-mod=mod", "GOPROXY=off", "GOSUMDB=off", "GOTOOLCHAIN=local"),
	}
	pkgs, err := packages.Load(cfg, "./...")
	if err != nil {
		return nil, err
	}
	for _, p := range pkgs {
		for _, e := range p.Errors {
			ld.errors = append(ld.errors, e.Error())
		}
	}
	if len(ld.errors) > 0 {
		return ld, fmt.Errorf("package errors:\n%s", strings.Join(ld.errors, "\n"))
	}
	ld.pkgs = pkgs
	prog, spkgs := ssautil.AllPackages(pkgs, ssa.InstantiateGenerics|ssa.GlobalDebug)
	ld.prog = prog
	ld.fset = prog.Fset
	for i, sp := range spkgs {
		if sp == nil {
			continue
		}
		ld.spkgs[pkgs[i].PkgPath] = sp
		sp.Build()
	}
	// generic helpers used by the code in scope
	for _, path := range []string{"golang.org/x/exp/maps", "slices", "sort"} {
		if sp := prog.ImportedPackage(path); sp != nil {
			sp.Build()
		}
	}
	return ld, nil
}

// bind attaches contracts to SSA functions and compiled clause stubs.
func (e *Engine) bind(ld *Loaded) error {
	// index functions by String()
	for _, sp := range ld.spkgs {
		for _, m := range sp.Members {
			if fn, ok := m.(*ssa.Function); ok {
				e.indexFn(fn)
			}
		}
	}
	for fn := range ssautil.AllFunctions(ld.prog) {
		if fn.Pkg != nil && strings.HasPrefix(fn.Pkg.Pkg.Path(), nfpmPath) {
			e.indexFn(fn)
		}
	}
	var errs []string
	for _, cf := range ld.files {
		sp := ld.spkgs[cf.Pkg]
		if sp == nil {
			errs = append(errs, "no package "+cf.Pkg)
			continue
		}
		for _, c := range cf.Cs {
			fn := e.funcsByName[c.Key]
			if fn == nil {
				errs = append(errs, fmt.Sprintf("%s:%d: contract for unknown function %s", c.File, c.Line, c.Key))
				continue
			}
			e.contracts[c.Key] = c
			if c.Inline {
				e.inlineFns[c.Key] = true
			}
			bindCl := func(cl *Clause) {
				f := sp.Func(cl.StubFn)
				if f == nil {
					errs = append(errs, "stub not found: "+cl.StubFn)
				}
				cl.Fn = f
			}
			for _, cl := range c.Requires {
				bindCl(cl)
			}
			for _, cl := range c.Assumes {
				bindCl(cl)
			}
			for _, cl := range c.Cases {
				bindCl(cl)
			}
			for _, cl := range c.Expects {
				bindCl(cl)
			}
			for _, cl := range c.OnStore {
				bindCl(cl)
			}
			for _, cl := range c.Ensures {
				bindCl(cl)
			}
			for _, cl := range c.Modifies {
				bindCl(cl)
			}
			for _, ls := range c.Loops {
				for _, cl := range ls.Invs {
					bindCl(cl)
				}
			}
			// signature check: the clause function's leading parameters must
			// have the real function's parameter types
			if len(c.Requires)+len(c.Ensures) > 0 {
				var probe *ssa.Function
				if len(c.Ensures) > 0 {
					probe = c.Ensures[0].Fn
				} else {
					probe = c.Requires[0].Fn
				}
				if probe != nil {
					if len(probe.Params) < len(fn.Params) {
						errs = append(errs, fmt.Sprintf("%s:%d: contract header has fewer parameters than %s", c.File, c.Line, c.Key))
					} else {
						for i, p := range fn.Params {
							if typeKey(p.Type()) != typeKey(probe.Params[i].Type()) {
								errs = append(errs, fmt.Sprintf("%s:%d: parameter %d of %s has type %s, contract says %s", c.File, c.Line, i, c.Key, p.Type(), probe.Params[i].Type()))
							}
						}
					}
				}
			}
		}
	}
	if len(errs) > 0 {
		return fmt.Errorf("contract binding failed:\n%s", strings.Join(errs, "\n"))
	}
	return nil
}

func (e *Engine) indexFn(fn *ssa.Function) {
	e.funcsByName[fn.String()] = fn
	for _, a := range fn.AnonFuncs {
		e.indexFn(a)
	}
}

// docArchSpec extracts, on every run, the GOARCH table of one packager from
// the documentation (www/docs/goarch-to-pkg.md) and renders it as the spec
// function docArch(a): the documented value, or a itself ("anything else
// verbatim").  The table is the oracle of the architecture clauses of C02/C15.
func docArchSpec(pkgPath string) string {
	section := map[string]string{
		nfpmPath + "/deb": "deb", nfpmPath + "/rpm": "rpm", nfpmPath + "/apk": "apk", nfpmPath + "/arch": "archlinux",
	}[pkgPath]
	if section == "" {
		return ""
	}
	data, err := os.ReadFile(filepath.Join(repoDir, "www/docs/goarch-to-pkg.md"))
	if err != nil {
		return "func docArch(a string) string { return \"<documentation table missing>\" }"
	}
	in := false
	var b strings.Builder
	b.WriteString("func docArch(a string) string {\n\tswitch a {\n")
	n := 0
	for _, l := range strings.Split(string(data), "\n") {
		t := strings.TrimSpace(l)
		if strings.HasPrefix(t, "## ") {
			in = strings.Trim(strings.TrimPrefix(t, "## "), "` ") == section
			continue
		}
		if !in || !strings.HasPrefix(t, "|") {
			continue
		}
		cells := strings.Split(strings.Trim(t, "|"), "|")
		if len(cells) != 2 {
			continue
		}
		k := strings.Trim(strings.TrimSpace(cells[0]), "`")
		v := strings.Trim(strings.TrimSpace(cells[1]), "`")
		if k == "GOARCH" || strings.HasPrefix(k, ":") || k == "" {
			continue
		}
		fmt.Fprintf(&b, "\tcase %q:\n\t\treturn %q\n", k, v)
		n++
	}
	b.WriteString("\t}\n\treturn a\n}")
	if n == 0 {
		return "func docArch(a string) string { return \"<no documented table for " + section + ">\" }"
	}
	return b.String()
}
