package main

import (
	"fmt"
	"go/types"
	"os"
	"sort"
	"strings"

	"golang.org/x/tools/go/ssa"
)

type CallCtx struct {
	e     *Engine
	fr    *Frame
	st    *State
	pc    *Term
	pcOut *Term
	args  []*Term
	argT  []types.Type
	name  string
	fn    *ssa.Function
	instr ssa.Instruction
	resT  types.Type
	label string
	rd    *State // state for reads (old-state inside old(...))
}

const nfpmPath = "github.com/goreleaser/nfpm/v2"

func (e *Engine) isOurs(fn *ssa.Function) bool {
	if fn.Pkg == nil {
		// synthetic wrappers, generic instantiations, anonymous functions
		if fn.Parent() != nil {
			return e.isOurs(fn.Parent())
		}
		if o := fn.Origin(); o != nil {
			return e.isOurs(o)
		}
		if fn.Synthetic != "" {
			return true
		}
		return false
	}
	return strings.HasPrefix(fn.Pkg.Pkg.Path(), nfpmPath)
}

func fnName(fn *ssa.Function) string {
	if o := fn.Origin(); o != nil {
		return o.String()
	}
	return fn.String()
}

func (e *Engine) execCall(fr *Frame, instr ssa.Instruction, call *ssa.CallCommon, st *State, pc *Term) (*Term, *Term) {
	var args []*Term
	for _, a := range call.Args {
		args = append(args, e.value(fr, st, a))
	}
	var fnval *Term
	if call.IsInvoke() {
		fnval = e.value(fr, st, call.Value)
	} else {
		switch call.Value.(type) {
		case *ssa.Function, *ssa.Builtin:
		default:
			fnval = e.value(fr, st, call.Value)
		}
	}
	return e.doCall(fr, instr, call, fnval, args, st, pc, fmt.Sprintf("call#%d", e.ordinal(fr.fn, instr)))
}

func (e *Engine) doCall(fr *Frame, instr ssa.Instruction, call *ssa.CallCommon, fnval *Term, args []*Term, st *State, pc *Term, label string) (*Term, *Term) {
	var resT types.Type = call.Signature().Results()
	if call.Signature().Results().Len() == 1 {
		resT = call.Signature().Results().At(0).Type()
	}
	if call.IsInvoke() {
		return e.invoke(fr, instr, fnval, call.Value.Type(), call.Method, args, resT, st, pc, label)
	}
	switch v := call.Value.(type) {
	case *ssa.Builtin:
		return e.builtin(fr, instr, v, call, args, st, pc), pc
	case *ssa.Function:
		return e.callFn(fr, instr, v, args, nil, resT, st, pc, label)
	}
	// dynamic function value
	return e.callDynamic(fr, instr, fnval, call, args, resT, st, pc, label)
}

type tagCase struct {
	cond *Term
	tag  int // -1: unknown
}

func (e *Engine) possibleTags(t *Term) []tagCase {
	memo := map[int]map[int]*Term{}
	var walk func(t *Term) map[int]*Term
	walk = func(t *Term) map[int]*Term {
		if r, ok := memo[t.id]; ok {
			return r
		}
		var r map[int]*Term
		switch {
		case t.Op == "ite":
			a, b := walk(t.Args[1]), walk(t.Args[2])
			r = map[int]*Term{}
			for k, c := range a {
				r[k] = And(t.Args[0], c)
			}
			nc := Not(t.Args[0])
			for k, c := range b {
				if old, ok := r[k]; ok {
					r[k] = Or(old, And(nc, c))
				} else {
					r[k] = And(nc, c)
				}
			}
		case t.Op == "int":
			r = map[int]*Term{int(t.IVal.Int64()): True}
		default:
			r = map[int]*Term{-1: True}
		}
		memo[t.id] = r
		return r
	}
	m := walk(t)
	var tags []int
	for k := range m {
		tags = append(tags, k)
	}
	sort.Ints(tags)
	var out []tagCase
	for _, k := range tags {
		if !m[k].IsFalse() {
			out = append(out, tagCase{m[k], k})
		}
	}
	return out
}

func (e *Engine) callDynamic(fr *Frame, instr ssa.Instruction, fnval *Term, call *ssa.CallCommon, args []*Term, resT types.Type, st *State, pc *Term, label string) (*Term, *Term) {
	cases := e.possibleTags(fnval)
	if len(cases) == 1 && cases[0].tag >= closureBase {
		c := e.closureOf(int64(cases[0].tag))
		return e.callFn(fr, instr, c.fn, args, c.bindings, resT, st, pc, label)
	}
	var edges []edge
	var results []*Term
	var pcs []*Term
	for _, tc := range cases {
		s2 := st.clone()
		p2 := And(pc, tc.cond)
		var r, po *Term
		if c := e.closureOf(int64(tc.tag)); tc.tag >= closureBase && c != nil {
			r, po = e.callFn(fr, instr, c.fn, args, c.bindings, resT, s2, p2, label)
		} else if tc.tag == 0 {
			continue // nil function: panics
		} else {
			// unknown function value: look for a model keyed by where the value came from
			r, po = e.callUnknownFunc(fr, instr, fnval, call, args, resT, s2, p2, label)
		}
		edges = append(edges, edge{pc: tc.cond, st: s2})
		results = append(results, r)
		pcs = append(pcs, po)
	}
	if len(edges) == 0 {
		return nil, False
	}
	m := e.mergeStates(edges)
	st.comps = m.comps
	var res *Term
	for i := len(results) - 1; i >= 0; i-- {
		if results[i] == nil {
			continue
		}
		if res == nil {
			res = results[i]
		} else {
			res = Ite(edges[i].pc, results[i], res)
		}
	}
	return res, Or(pcs...)
}

// callUnknownFunc: a function value that is an input (a callback supplied by
// the library user).  Its results are arbitrary; a model may be registered
// for the heap field it was loaded from.
func (e *Engine) callUnknownFunc(fr *Frame, instr ssa.Instruction, fnval *Term, call *ssa.CallCommon, args []*Term, resT types.Type, st *State, pc *Term, label string) (*Term, *Term) {
	origin := "func"
	if fnval.Op == "sym" && strings.HasPrefix(fnval.SVal, "p:") && e.topFn != nil {
		origin = "P:" + shortFn(e.topFn) + "." + strings.TrimPrefix(fnval.SVal, "p:")
	} else if fnval.Op == "select" && fnval.Args[0].Op == "sym" {
		origin = strings.TrimPrefix(fnval.Args[0].SVal, "0:")
	} else if fnval.Op == "select" {
		// look through stores
		a := fnval.Args[0]
		for a.Op == "store" || a.Op == "ite" {
			if a.Op == "store" {
				a = a.Args[0]
			} else {
				a = a.Args[1]
			}
		}
		if a.Op == "sym" {
			s := a.SVal
			if i := strings.Index(s, "H:"); i >= 0 {
				s = s[i:]
				if j := strings.Index(s, "!"); j >= 0 {
					s = s[:j]
				}
			}
			origin = strings.TrimPrefix(s, "0:")
		}
	}
	key := "funcval:" + origin
	ctx := &CallCtx{e: e, fr: fr, st: st, rd: st, pc: pc, pcOut: pc, args: args, name: key, instr: instr, resT: resT, label: label}
	for _, a := range call.Args {
		ctx.argT = append(ctx.argT, a.Type())
	}
	if m, ok := e.models[key]; ok {
		r := m(ctx)
		return r, ctx.pcOut
	}
	e.unmodelled[key]++
	return e.freshOfType(st, resT, "ext"), pc
}

func (e *Engine) invoke(fr *Frame, instr ssa.Instruction, recv *Term, ifaceT types.Type, method *types.Func, args []*Term, resT types.Type, st *State, pc *Term, label string) (*Term, *Term) {
	e.invokeDepth++
	defer func() { e.invokeDepth-- }()
	cases := e.possibleTags(IfaceTag(recv))
	if e.invokeDepth > 8 {
		var d []string
		for _, c := range cases {
			n := "?"
			if c.tag > 0 {
				n = e.tr.typeOfTag(c.tag).String()
			}
			d = append(d, n)
		}
		e.invokeTrace = append(e.invokeTrace, fmt.Sprintf("%d:%s%v", e.invokeDepth, method.Name(), d))
	}
	if e.invokeDepth == 9 && traceOn {
		p := newPrinter()
		tt := IfaceTag(recv)
		p.count(tt)
		x := p.expr(tt)
		fmt.Fprintf(os.Stderr, "TAG at depth 9: %s\n", x)
		for _, d := range p.defs {
			fmt.Fprintf(os.Stderr, "   %s\n", d)
		}
	}
	if e.invokeDepth > 14 {
		panic(outsideSubset("dynamic dispatch nests deeper than 14 (cyclic writer stack?) " + strings.Join(e.invokeTrace[len(e.invokeTrace)-6:], " | ")))
	}
	one := func(tc tagCase, s2 *State, p2 *Term) (*Term, *Term) {
		recv := Restrict(recv, p2)
		if tc.tag > 0 {
			T := e.tr.typeOfTag(tc.tag)
			if g, ok := T.(*ghostType); ok {
				key := "ghost:" + g.name + "." + method.Name()
				if m, ok := e.models[key]; ok {
					ctx := &CallCtx{e: e, fr: fr, st: s2, rd: s2, pc: p2, pcOut: p2, args: append([]*Term{recv}, args...), name: key, instr: instr, resT: resT, label: label}
					return m(ctx), ctx.pcOut
				}
				panic("no model " + key)
			}
			sel := e.prog.MethodSets.MethodSet(T).Lookup(method.Pkg(), method.Name())
			if sel == nil {
				panic(fmt.Sprintf("method %s not found on %s", method.Name(), T))
			}
			fn := e.prog.MethodValue(sel)
			rv := e.unboxIface(s2, T, recv)
			return e.callFn(fr, instr, fn, append([]*Term{rv}, args...), nil, resT, s2, p2, label)
		}
		// external / unknown dynamic type
		key := "ext:" + typeKey(ifaceT) + "." + method.Name()
		ctx := &CallCtx{e: e, fr: fr, st: s2, rd: s2, pc: p2, pcOut: p2, args: append([]*Term{recv}, args...), name: key, instr: instr, resT: resT, label: label}
		if m, ok := e.models[key]; ok {
			r := m(ctx)
			if r != nil && !(fr != nil && fr.clause) {
				e.callHist["last:"+key] = r
			}
			return r, ctx.pcOut
		}
		// try the method's own interface (embedded interfaces)
		if named, ok := method.Type().(*types.Signature).Recv().Type().(*types.Named); ok {
			key2 := "ext:" + typeKey(named) + "." + method.Name()
			if m, ok := e.models[key2]; ok {
				ctx.name = key2
				return m(ctx), ctx.pcOut
			}
		}
		e.unmodelled[key]++
		return e.freshOfType(s2, resT, "ext"), p2
	}
	live := cases[:0]
	for _, c := range cases {
		if c.tag != 0 && !And(pc, c.cond).IsFalse() { // nil interface: panics
			live = append(live, c)
		}
	}
	cases = live
	if len(cases) == 0 {
		return nil, False
	}
	if len(cases) == 1 {
		return one(cases[0], st, pc)
	}
	var edges []edge
	var results, pcs []*Term
	for _, tc := range cases {
		s2 := st.clone()
		r, po := one(tc, s2, And(pc, tc.cond))
		edges = append(edges, edge{pc: tc.cond, st: s2})
		results = append(results, r)
		pcs = append(pcs, po)
	}
	m := e.mergeStates(edges)
	st.comps = m.comps
	var res *Term
	for i := len(results) - 1; i >= 0; i-- {
		if results[i] == nil {
			continue
		}
		if res == nil {
			res = results[i]
		} else {
			res = Ite(edges[i].pc, results[i], res)
		}
	}
	return res, Or(pcs...)
}

// ghostType is a dynamic type that exists only in library models.
type ghostType struct {
	name string
}

func (g *ghostType) Underlying() types.Type { return g }
func (g *ghostType) String() string         { return "ghost:" + g.name }

func (e *Engine) ghostTag(name string) *Term {
	return IntT(int64(e.tr.tagGhost(name)))
}

func (r *TypeReg) tagGhost(name string) int {
	k := "ghost:" + name
	if g, ok := r.tagOf[k]; ok {
		return g
	}
	g := len(r.tagTypes)
	r.tagOf[k] = g
	r.tagTypes = append(r.tagTypes, &ghostType{name})
	return g
}

func (e *Engine) callFn(fr *Frame, instr ssa.Instruction, fn *ssa.Function, args []*Term, bindings []*Term, resT types.Type, st *State, pc *Term, label string) (*Term, *Term) {
	name := fnName(fn)
	rd := st
	allOld := false
	if fr != nil && fr.oldSt != nil && (fr.allOld || fr.oldIns[instr]) {
		rd = fr.oldSt.withVals(st.vals)
		allOld = true
	}
	ctx := &CallCtx{e: e, fr: fr, st: st, rd: rd, pc: pc, pcOut: pc, args: args, name: name, fn: fn, instr: instr, resT: resT, label: label}
	if fn.Signature.Recv() != nil {
		ctx.argT = append(ctx.argT, fn.Signature.Recv().Type())
	}
	for i := 0; i < fn.Signature.Params().Len(); i++ {
		ctx.argT = append(ctx.argT, fn.Signature.Params().At(i).Type())
	}
	if g := ghostBuiltin(fn); g != "" {
		return e.ghostCall(ctx, g, fn), ctx.pcOut
	}
	if m, ok := e.models[name]; ok {
		e.usedModels[name] = true
		if allOld {
			ctx.st = rd.clone()
		}
		r := m(ctx)
		if r != nil && !(fr != nil && fr.clause) {
			e.callHist["last:"+name] = r
		}
		return r, ctx.pcOut
	}
	if c := e.contracts[name]; c != nil && c.Pure && fn != e.topFn {
		return e.pureCall(ctx, c), ctx.pcOut
	}
	if c := e.contracts[name]; c != nil && !c.Inline && fn != e.topFn && !(fr != nil && fr.clause) {
		r := e.modularCall(ctx, c)
		if r != nil {
			e.callHist["last:"+name] = r
		}
		return r, ctx.pcOut
	}
	if fn.Blocks != nil && (e.isOurs(fn) || e.inlineFns[name]) {
		path := ""
		if fr != nil {
			path = fr.path + fr.iter
		}
		if instr != nil && !(fr != nil && fr.clause) {
			path += ">" + shortFn(fn)
			if fr != nil {
				path += fmt.Sprintf("#%d", e.ordinal(fr.fn, instr))
			}
		}
		var old *State
		if fr != nil {
			old = fr.oldSt
		}
		if allOld {
			// evaluate entirely in the old state; effects are discarded
			r, _, po := e.execFunction(fn, args, bindings, rd.clone(), pc, fr, path, old, true)
			return r, po
		}
		r, out, po := e.execFunction(fn, args, bindings, st, pc, fr, path, old, false)
		st.comps = out.comps
		if r != nil && !(fr != nil && fr.clause) {
			e.callHist["last:"+name] = r
			e.callHist[fmt.Sprintf("call:%s#%d", name, e.callCount[name])] = r
			e.callCount[name]++
		}
		return r, po
	}
	e.unmodelled[name]++
	// unknown external: havoc what pointer arguments point to (one level)
	for i, a := range args {
		if i < len(ctx.argT) {
			e.havocPointee(st, ctx.argT[i], a)
		}
	}
	return e.freshOfType(st, resT, "ext"), pc
}

func (e *Engine) havocPointee(st *State, t types.Type, v *Term) {
	pt, ok := t.Underlying().(*types.Pointer)
	if !ok {
		return
	}
	et := pt.Elem()
	if _, isS := isStructVal(et); isS {
		nv := e.freshOfType(st, et, "hvp")
		e.storeAt(st, et, v, "", nv)
		return
	}
	nv := e.freshOfType(st, et, "hvp")
	e.storeAt(st, et, v, e.componentOfLoc(v, et), nv)
}

// ---- builtins ----

func (e *Engine) builtin(fr *Frame, instr ssa.Instruction, b *ssa.Builtin, call *ssa.CallCommon, args []*Term, st *State, pc *Term) *Term {
	switch b.Name() {
	case "len":
		x := args[0]
		switch t := call.Args[0].Type().Underlying().(type) {
		case *types.Map:
			_, _, ln := e.mapComps(t)
			return Ite(Eq(x, IntT(0)), IntT(0), Select(e.comp(st, ln), x))
		case *types.Pointer:
			return IntT(t.Elem().Underlying().(*types.Array).Len())
		case *types.Array:
			return IntT(t.Len())
		}
		if x.Sort == StringS {
			return StrLen(x)
		}
		return SliceLen(x)
	case "cap":
		x := args[0]
		if x.Sort == StringS {
			return StrLen(x)
		}
		return SliceCap(x)
	case "min", "max":
		acc := args[0]
		for _, a := range args[1:] {
			if acc.Sort == StringS {
				panic(outsideSubset("min/max on strings"))
			}
			if b.Name() == "min" {
				acc = Ite(Le(acc, a), acc, a)
			} else {
				acc = Ite(Ge(acc, a), acc, a)
			}
		}
		return acc
	case "append":
		s, t := args[0], args[1]
		if s.Sort == StringS {
			return Concat(s, t)
		}
		et := call.Args[0].Type().Underlying().(*types.Slice).Elem()
		return e.appendSlicesAt(fr, instr, st, pc, et, s, t)
	case "delete":
		mt := call.Args[0].Type().Underlying().(*types.Map)
		has, _, ln := e.mapComps(mt)
		m, k := args[0], args[1]
		if fr != nil && instr != nil {
			e.frameCheckObj(fr, instr, st, pc, m, "mapdelete")
		}
		hm := Select(e.comp(st, has), m)
		was := Select(hm, k)
		e.setComp(st, has, Store(e.comp(st, has), m, Store(hm, k, False)))
		l := Select(e.comp(st, ln), m)
		e.setComp(st, ln, Store(e.comp(st, ln), m, Ite(was, Sub(l, IntT(1)), l)))
		return nil
	case "ssa:wrapnilchk":
		return args[0]
	case "print", "println":
		return nil
	case "recover":
		return NilIface
	case "copy":
		panic(outsideSubset("builtin copy"))
	}
	panic("builtin " + b.Name())
}

// leafPaths enumerates the scalar leaves below an element of type t.
type leaf struct {
	gids []int // field path (global ids)
	t    types.Type
	comp string
}

func (e *Engine) leaves(t types.Type, prefix []int, comp string, out *[]leaf) {
	if stt, ok := isStructVal(t); ok {
		for i := 0; i < stt.NumFields(); i++ {
			e.leaves(stt.Field(i).Type(), append(append([]int{}, prefix...), e.tr.gid(t, i)), compField(t, i), out)
		}
		return
	}
	*out = append(*out, leaf{gids: prefix, t: t, comp: comp})
}

func leafLoc(base *Term, idx *Term, gids []int) *Term {
	p := PElem(LocPath(base), idx)
	for _, g := range gids {
		p = PFld(p, g)
	}
	return MkLoc(LocObj(base), p)
}

// copyElems copies count elements of type et from src[srcOff..] to dst[dstOff..].
func (e *Engine) copyElems(st *State, pc *Term, et types.Type, dst, dstOff, src, srcOff, count *Term) {
	var ls []leaf
	e.leaves(et, nil, compElem(et), &ls)
	if count.Op == "int" && count.IVal.Int64() <= 8 {
		for j := int64(0); j < count.IVal.Int64(); j++ {
			for _, lf := range ls {
				e.leafComp(lf.comp, lf.t)
				v := Select(e.comp(st, lf.comp), leafLoc(src, ElemIndex(srcOff, IntT(j)), lf.gids))
				e.setComp(st, lf.comp, Store(e.comp(st, lf.comp), leafLoc(dst, ElemIndex(dstOff, IntT(j)), lf.gids), v))
			}
		}
		return
	}
	for _, lf := range ls {
		e.leafComp(lf.comp, lf.t)
		old := e.comp(st, lf.comp)
		nw := Fresh("cp:"+lf.comp, old.Sort)
		e.heapBound[nw.SVal] = e.comp(st, allocComp)
		l := BoundVar(LocS)
		e.assume(pc, Forall([]*Term{l}, Implies(Neq(LocObj(l), LocObj(dst)), Eq(Select(nw, l), Select(old, l)))))
		j := BoundVar(IntS)
		e.assume(pc, Forall([]*Term{j}, Implies(And(Le(IntT(0), j), Lt(j, count)),
			Eq(Select(nw, leafLoc(dst, ElemIndex(dstOff, j), lf.gids)), Select(old, leafLoc(src, ElemIndex(srcOff, j), lf.gids))))))
		e.setComp(st, lf.comp, nw)
	}
}

func (e *Engine) appendSlices(st *State, pc *Term, et types.Type, s, t *Term) *Term {
	return e.appendSlicesAt(nil, nil, st, pc, et, s, t)
}

func (e *Engine) appendSlicesAt(fr *Frame, instr ssa.Instruction, st *State, pc *Term, et types.Type, s, t *Term) *Term {
	m, n := SliceLen(s), SliceLen(t)
	if t.Sort == StringS {
		panic(outsideSubset("append(non-byte slice, string...)"))
	}
	if n.Op == "int" && n.IVal.Int64() <= 8 && !(m.Op == "int" && m.IVal.Int64() <= 8) {
		// Accumulator pattern: a few elements appended to a slice of symbolic
		// length.  Modelled in place (capacity is not tracked): exact when the
		// capacity suffices, and observationally equivalent otherwise as long
		// as no other live slice observes the spare capacity (stated
		// assumption).  A nil slice gets a fresh backing array.
		isNil := Eq(LocObj(SliceBase(s)), IntT(0))
		if fr != nil && instr != nil && e.frameOn && !fr.clause && e.quiet == 0 {
			// the in-place store must not reach memory that existed before the
			// function under verification was entered
			// (when len == cap, append reallocates and nothing old is written)
			goal := Or(isNil, e.allocGe(LocObj(SliceBase(s))), Eq(SliceLen(s), SliceCap(s)))
			if !goal.IsTrue() {
				e.addObl(fr, "frame", fmt.Sprintf("append#%d", e.ordinal(fr.fn, instr)), e.frameProps, pc, goal, e.posOf(fr, instr))
			}
		}
		nb := e.allocLoc(st)
		base := Ite(isNil, nb, SliceBase(s))
		off := Ite(isNil, IntT(0), SliceOff(s))
		e.copyElems(st, pc, et, base, ElemIndex(off, m), SliceBase(t), SliceOff(t), n)
		total := Add(m, n)
		cp := Ite(Lt(SliceCap(s), total), total, SliceCap(s))
		e.note("append modelled in place for symbolic-length accumulators")
		return MkSlice(base, off, total, cp)
	}
	base := e.allocLoc(st)
	e.copyElems(st, pc, et, base, IntT(0), SliceBase(s), SliceOff(s), m)
	e.copyElems(st, pc, et, base, m, SliceBase(t), SliceOff(t), n)
	total := Add(m, n)
	if m.Op == "int" && n.Op != "int" {
		total = Add(n, m)
	}
	return MkSlice(base, IntT(0), total, total)
}

// ---- modular calls (callee has a contract) ----

func (e *Engine) modularCall(c *CallCtx, ct *Contract) *Term {
	e.note("modular-call:" + c.name)
	fn := c.fn
	// requires
	for _, cl := range ct.Requires {
		g := e.evalClause(c.fr, cl, c.args, nil, c.st, c.st, c.pc)
		e.addObl(c.fr, "requires", fmt.Sprintf("%s.%s@%s", shortFn(fn), cl.Label, c.label), cl.Props, c.pc, g, e.posOf(c.fr, c.instr))
	}
	pre := c.st.clone()
	// the callee may allocate
	na := Fresh("alloc", IntS)
	e.axiom(Ge(na, e.comp(pre, allocComp)))
	e.noteAllocGe(na, e.comp(pre, allocComp))
	e.setComp(c.st, allocComp, na)
	// havoc modifies (new values may refer to objects the callee allocated)
	for _, cl := range ct.Modifies {
		e.applyModifies(c, cl, pre)
	}
	res := e.freshOfType(c.st, c.resT, "res:"+fn.Name())
	// (proved for every function under contract, see verifyFunction)
	noteNotGlobal := func(rv *Term) {
		var obj *Term
		switch rv.Sort {
		case LocS:
			obj = LocObj(rv)
		case SliceS:
			obj = LocObj(SliceBase(rv))
		}
		if obj != nil && e.inputLow != nil {
			NoteNilOrGe(obj, e.inputLow)
			e.axiom(Or(Eq(obj, IntT(0)), Ge(obj, e.inputLow)))
		}
	}
	if res.Op == "tuple" {
		for _, x := range res.Elems {
			noteNotGlobal(x)
		}
	} else {
		noteNotGlobal(res)
	}
	var resArgs []*Term
	if res.Op == "tuple" {
		resArgs = res.Elems
	} else if tt, ok := c.resT.(*types.Tuple); !ok || tt.Len() > 0 {
		resArgs = []*Term{res}
	}
	subst := map[int]*Term{}
	var ensuredTerms []*Term
	for _, cl := range ct.Ensures {
		g := e.evalClause(c.fr, cl, c.args, resArgs, c.st, pre, c.pc)
		e.assume(c.pc, g)
		ensuredTerms = append(ensuredTerms, g)
		// a postcondition of the form  result == <term>  determines the result:
		// use the term itself (keeps object identities syntactic)
		for _, cj := range conj(g) {
			// fresh(x) has the shape  bound <= obj(x): remember it for the
			// syntactic comparison of object identities
			if cj.Op == "<=" && len(cj.Args) == 2 && cj.Args[1].Op == "sel:obj" && c.pc.IsTrue() == c.pc.IsTrue() {
				if _, has := lowerBounds[cj.Args[1].id]; !has {
					NoteLowerBound(cj.Args[1], cj.Args[0])
				}
			}
			if cj.Op == "=" {
				for _, r := range resArgs {
					if cj.Args[0] == r && cj.Args[1].Op != "sym" {
						subst[r.id] = cj.Args[1]
					} else if cj.Args[1] == r && cj.Args[0].Op != "sym" {
						subst[r.id] = cj.Args[0]
					} else if cj.Args[0] == r && strings.HasPrefix(cj.Args[1].SVal, "p:") {
						subst[r.id] = cj.Args[1]
					} else if cj.Args[1] == r && strings.HasPrefix(cj.Args[0].SVal, "p:") {
						subst[r.id] = cj.Args[0]
					}
				}
			}
		}
	}
	// a postcondition  [cond ==>] ghostGlobal == <term>  determines the havocked
	// ghost global on the paths where cond holds: use the term itself
	for name := range e.compSorts {
		if !strings.HasPrefix(name, "G:") {
			continue
		}
		x := e.comp(c.st, name)
		if x.Op != "sym" || x == e.comp(pre, name) {
			continue
		}
		for _, g := range ensuredTerms {
			for _, cj := range conj(g) {
				var cond, val *Term
				pick := func(eq *Term) *Term {
					if eq.Op != "=" {
						return nil
					}
					if eq.Args[0] == x && !containsTerm(eq.Args[1], x) {
						return eq.Args[1]
					}
					if eq.Args[1] == x && !containsTerm(eq.Args[0], x) {
						return eq.Args[0]
					}
					return nil
				}
				if v := pick(cj); v != nil {
					cond, val = True, v
				} else if cj.Op == "or" {
					for i, a := range cj.Args {
						if v := pick(a); v != nil {
							var others []*Term
							for j, b := range cj.Args {
								if j != i {
									others = append(others, Not(b))
								}
							}
							cond, val = And(others...), v
							break
						}
					}
				}
				if val != nil && !containsTerm(cond, x) {
					e.setComp(c.st, name, Ite(cond, val, x))
				}
			}
		}
	}
	if tt, ok := c.resT.(*types.Tuple); ok && tt.Len() == 0 {
		return nil
	}
	if len(subst) > 0 {
		if res.Op == "tuple" {
			els := make([]*Term, len(res.Elems))
			for i, x := range res.Elems {
				els[i] = x
				if y, ok := subst[x.id]; ok {
					els[i] = y
				}
			}
			return Tuple(els...)
		}
		if y, ok := subst[res.id]; ok {
			return y
		}
	}
	return res
}

// pureCall: the callee is a pure function of scalar arguments.  Its result is
// the application of an uninterpreted function to the arguments (so equal
// arguments give equal results, in code and in specifications alike), and its
// postconditions are assumed for these arguments.
func (e *Engine) pureCall(c *CallCtx, ct *Contract) *Term {
	e.note("pure-call:" + c.name)
	var ss []*Sort
	for _, a := range c.args {
		if a.Sort.Kind == "array" || a.Sort == tupleSort {
			panic(outsideSubset("pure function with non-scalar argument: " + c.name))
		}
		ss = append(ss, a.Sort)
	}
	rs := e.tr.sortOf(c.resT)
	if rs == tupleSort {
		panic(outsideSubset("pure function with several results: " + c.name))
	}
	res := App(DeclUF("fn:"+shortFn(c.fn), rs, ss...), c.args...)
	// constant arguments: the body is evaluated (the function is side-effect
	// free by its contract); a constant result replaces the abstraction
	allConst := len(c.args) > 0 && c.fn.Blocks != nil
	for _, a := range c.args {
		if !a.IsConst() {
			allConst = false
		}
	}
	if allConst && e.pureDepth < 3 {
		if v, ok := e.pureConst[res.id]; ok {
			if v != nil {
				return v
			}
		} else {
			e.pureConst[res.id] = nil
			func() {
				defer func() { recover() }()
				e.pureDepth++
				defer func() { e.pureDepth-- }()
				saveObls := len(e.obls)
				r, _, _ := e.execFunction(c.fn, c.args, nil, c.st.clone(), True, c.fr, "", nil, true)
				e.obls = e.obls[:saveObls]
				if r != nil && r.IsConst() {
					e.pureConst[res.id] = r
				}
			}()
			if v := e.pureConst[res.id]; v != nil {
				return v
			}
		}
	}
	if !e.pureSeen[res.id] {
		e.pureSeen[res.id] = true
		for _, cl := range ct.Requires {
			if !(c.fr != nil && c.fr.clause) {
				g := e.evalClause(c.fr, cl, c.args, nil, c.st, c.st, c.pc)
				e.addObl(c.fr, "requires", fmt.Sprintf("%s.%s@%s", shortFn(c.fn), cl.Label, c.label), cl.Props, c.pc, g, e.posOf(c.fr, c.instr))
			}
		}
		e.pureDepth++
		if e.pureDepth < 3 {
			for _, cl := range ct.Ensures {
				g := e.evalClause(c.fr, cl, c.args, []*Term{res}, c.st, c.st, True)
				if res.hasBound {
					continue
				}
				e.axiom(g)
			}
		}
		e.pureDepth--
	}
	return res
}

// applyModifies havocs the locations named by a modifies clause.
func (e *Engine) applyModifies(c *CallCtx, cl *Clause, pre *State) {
	locs := e.evalModifies(c.fr, cl, c.args, pre, c.pc)
	for _, ml := range locs {
		e.havocLoc(c.st, ml)
	}
}

func (e *Engine) havocLoc(st *State, ml modTarget) {
	switch ml.kind {
	case "loc":
		nv := e.freshOfType(st, ml.t, "mod")
		e.storePtr(st, ml.t, ml.loc, nv, True)
	case "ghost":
		n := "X:" + ml.name
		if s, ok := e.compSorts[n]; ok {
			e.setComp(st, n, Store(e.comp(st, n), ml.loc, Fresh("modg", s.Val)))
		}
	case "flag":
		n := "G:" + ml.name
		if s, ok := e.compSorts[n]; ok {
			e.setComp(st, n, Fresh("modf", s))
		}
	case "elems":
		// all elements of the backing array change; everything else is kept
		et := ml.t.Underlying().(*types.Slice).Elem()
		var ls []leaf
		e.leaves(et, nil, compElem(et), &ls)
		for _, lf := range ls {
			e.leafComp(lf.comp, lf.t)
			old := e.comp(st, lf.comp)
			nw := Fresh("model:"+lf.comp, old.Sort)
			e.heapBound[nw.SVal] = e.comp(st, allocComp)
			l := BoundVar(LocS)
			e.axiom(Forall([]*Term{l}, Implies(Neq(LocObj(l), LocObj(ml.loc)), Eq(Select(nw, l), Select(old, l)))))
			e.setComp(st, lf.comp, nw)
		}
	case "map":
		mt := ml.t.Underlying().(*types.Map)
		has, val, ln := e.mapComps(mt)
		e.setComp(st, has, Store(e.comp(st, has), ml.loc, Fresh("modmh", e.compSortOf(has).Val)))
		e.setComp(st, val, Store(e.comp(st, val), ml.loc, Fresh("modmv", e.compSortOf(val).Val)))
		e.setComp(st, ln, Store(e.comp(st, ln), ml.loc, Fresh("modml", IntS)))
	}
}

type modTarget struct {
	kind string // loc ghost flag map
	loc  *Term
	t    types.Type
	name string
}

func sortedKeys[V any](m map[string]V) []string {
	var ks []string
	for k := range m {
		ks = append(ks, k)
	}
	sort.Strings(ks)
	return ks
}
