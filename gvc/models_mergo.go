package main

import (
	"fmt"
	"go/types"
)

// mergo.Merge(dst, src, WithOverride) (assumed contract, probed on the pinned
// version): every non-empty leaf of src replaces the leaf of dst; structs are
// merged field by field; slices are taken wholesale and share their backing
// array; a nil dst map becomes a fresh map, a non-nil dst map is updated in
// place; pointers, functions and interfaces are taken when non-nil.

// mergeValue returns the merged value of type t.  inPlace reports map objects
// updated in place (for frame obligations); st is updated for map contents.
func (e *Engine) mergeValue(c *CallCtx, t types.Type, dst, src *Term, inPlaceMaps *[]*Term) *Term {
	if stt, ok := isStructVal(t); ok {
		s := e.tr.structSort(t, stt)
		args := make([]*Term, stt.NumFields())
		for i := 0; i < stt.NumFields(); i++ {
			f := s.DT.Ctors[0].Fields[i].Name
			d := Sel(s, s.DT.Ctors[0].Name, f, dst)
			sv := Sel(s, s.DT.Ctors[0].Name, f, src)
			if !stt.Field(i).Exported() {
				// unexported fields are not touched by mergo
				args[i] = d
				continue
			}
			args[i] = e.mergeValue(c, stt.Field(i).Type(), d, sv, inPlaceMaps)
		}
		return Ctor(s, s.DT.Ctors[0].Name, args...)
	}
	switch u := t.Underlying().(type) {
	case *types.Map:
		has, val, ln := e.mapComps(u)
		st := c.st
		srcLen := Select(e.comp(st, ln), src)
		srcEmpty := Or(Eq(src, IntT(0)), Eq(srcLen, IntT(0)))
		dstNil := Eq(dst, IntT(0))
		// result map: dst itself when non-nil (updated in place), else fresh
		nid := e.newObj(st)
		res := Ite(dstNil, nid, dst)
		hs, vs := Select(e.comp(st, has), src), Select(e.comp(st, val), src)
		hd, vd := Select(e.comp(st, has), dst), Select(e.comp(st, val), dst)
		ks := e.tr.sortOf(u.Key())
		nh := Fresh("mergo.has", ArrayOf(ks, BoolS))
		nv := Fresh("mergo.val", ArrayOf(ks, e.tr.sortOf(u.Elem())))
		k := BoundVar(ks)
		dHas := And(Not(dstNil), Select(hd, k))
		e.assume(c.pc, Forall([]*Term{k}, Eq(Select(nh, k), Or(Select(hs, k), dHas))))
		k2 := BoundVar(ks)
		e.assume(c.pc, Forall([]*Term{k2}, Eq(Select(nv, k2), Ite(Select(hs, k2), Select(vs, k2), Select(vd, k2)))))
		nl := Fresh("mergo.len", IntS)
		e.axiom(Ge(nl, IntT(0)))
		e.assume(c.pc, Ge(nl, srcLen))
		// only when src is non-empty is anything written
		e.guarded(c, Not(srcEmpty), func(s2 *CallCtx) {
			e.setComp(s2.st, has, Store(e.comp(s2.st, has), res, nh))
			e.setComp(s2.st, val, Store(e.comp(s2.st, val), res, nv))
			e.setComp(s2.st, ln, Store(e.comp(s2.st, ln), res, nl))
		})
		if inPlaceMaps != nil {
			*inPlaceMaps = append(*inPlaceMaps, And(Not(srcEmpty), Not(dstNil)), dst)
		}
		return Ite(srcEmpty, dst, res)
	case *types.Slice:
		if isByte(u.Elem()) {
			return Ite(Eq(StrLen(src), IntT(0)), dst, src)
		}
		return Ite(Eq(SliceLen(src), IntT(0)), dst, src)
	case *types.Basic:
		switch e.tr.sortOf(t) {
		case StringS:
			return Ite(Eq(src, StrT("")), dst, src)
		case IntS:
			return Ite(Eq(src, IntT(0)), dst, src)
		case BoolS:
			return Ite(src, src, dst)
		}
	case *types.Pointer:
		return Ite(Eq(src, NilLoc), dst, src)
	case *types.Signature:
		return Ite(Eq(src, IntT(0)), dst, src)
	case *types.Interface:
		return Ite(Eq(src, NilIface), dst, src)
	}
	if isOpaqueValueType(t) {
		return Ite(Eq(src, IntT(0)), dst, src)
	}
	panic(outsideSubset("mergo model: unsupported field type " + t.String()))
}

// deepEq: structural equality; maps are compared by content.
func (e *Engine) deepEq(st *State, t types.Type, a, b *Term) *Term {
	if stt, ok := isStructVal(t); ok {
		s := e.tr.structSort(t, stt)
		var cs []*Term
		for i := 0; i < stt.NumFields(); i++ {
			f := s.DT.Ctors[0].Fields[i].Name
			cs = append(cs, e.deepEq(st, stt.Field(i).Type(), Sel(s, s.DT.Ctors[0].Name, f, a), Sel(s, s.DT.Ctors[0].Name, f, b)))
		}
		return And(cs...)
	}
	if u, ok := t.Underlying().(*types.Map); ok {
		has, val, _ := e.mapComps(u)
		ks := e.tr.sortOf(u.Key())
		k := BoundVar(ks)
		ha, hb := Select(Select(e.comp(st, has), a), k), Select(Select(e.comp(st, has), b), k)
		va, vb := Select(Select(e.comp(st, val), a), k), Select(Select(e.comp(st, val), b), k)
		ha = And(Neq(a, IntT(0)), ha)
		hb = And(Neq(b, IntT(0)), hb)
		return Forall([]*Term{k}, And(Eq(ha, hb), Implies(ha, Eq(va, vb))))
	}
	if u, ok := t.Underlying().(*types.Slice); ok && !isByte(u.Elem()) {
		// same elements: identical view, or both empty
		return Or(Eq(a, b), And(Eq(SliceLen(a), IntT(0)), Eq(SliceLen(b), IntT(0))))
	}
	return Eq(a, b)
}

func init() {
	extraModels = append(extraModels, func(e *Engine) {
		e.models["dario.cat/mergo.WithOverride"] = func(c *CallCtx) *Term {
			e.flagSet(c.st, "mergoOverride", True)
			return nil
		}
		e.models["dario.cat/mergo.Merge"] = func(c *CallCtx) *Term {
			dst, src := c.args[0], c.args[1]
			opts := SliceLen(c.args[2])
			// the WithOverride option must be passed (a func value in the variadic slice)
			withOverride := False
			if opts.Op == "int" && opts.IVal.Int64() >= 1 {
				for _, o := range e.variadicFuncs(c.rd, c.args[2]) {
					if o.Op == "int" {
						if cl := e.closureOf(o.IVal.Int64()); cl != nil && cl.fn.String() == "dario.cat/mergo.WithOverride" {
							withOverride = True
						}
					}
				}
			}
			dtag := IfaceTag(dst)
			if dtag.Op != "int" {
				panic(outsideSubset("mergo.Merge: destination type unknown"))
			}
			DT := e.tr.typeOfTag(int(dtag.IVal.Int64()))
			pt, ok := DT.Underlying().(*types.Pointer)
			if !ok {
				panic(outsideSubset("mergo.Merge: destination is not a pointer"))
			}
			T := pt.Elem()
			dl := e.payloadTerm(dst)
			stag := IfaceTag(src)
			if stag.Op != "int" {
				panic(outsideSubset("mergo.Merge: source type unknown"))
			}
			ST := e.tr.typeOfTag(int(stag.IVal.Int64()))
			var sv *Term
			var srcNil *Term = False
			if spt, ok := ST.Underlying().(*types.Pointer); ok {
				srcNil = Eq(e.payloadTerm(src), NilLoc)
				if typeKey(spt.Elem()) != typeKey(T) {
					panic(outsideSubset("mergo.Merge: type mismatch"))
				}
				sv = e.loadPtr(c.st, T, e.payloadTerm(src))
			} else {
				if typeKey(ST) != typeKey(T) {
					panic(outsideSubset(fmt.Sprintf("mergo.Merge: type mismatch %s vs %s", ST, T)))
				}
				sv = e.unboxIface(c.st, ST, src)
			}
			dv := e.loadPtr(c.st, T, dl)
			if withOverride.IsFalse() {
				// without WithOverride only empty destination leaves are filled
				e.note("mergo.Merge without WithOverride: modelled as dst-wins merge")
				merged := e.mergeValue(c, T, sv, dv, nil)
				e.storePtr(c.st, T, dl, merged, c.pc)
				return NilIface
			}
			var res *Term = NilIface
			e.guarded(c, Not(srcNil), func(s2 *CallCtx) {
				var inPlace []*Term
				merged := e.mergeValue(s2, T, dv, sv, &inPlace)
				for i := 0; i+1 < len(inPlace); i += 2 {
					if c.fr != nil && c.instr != nil {
						e.frameCheckObj(c.fr, c.instr, s2.st, And(s2.pc, inPlace[i]), inPlace[i+1], "mergo-map-update")
					}
				}
				e.storePtr(s2.st, T, dl, merged, s2.pc)
			})
			// a nil source pointer is rejected (mergo.ErrNilArguments)
			res = Ite(srcNil, e.libErr("mergo:nil"), NilIface)
			return res
		}
	})
}

// variadicFuncs reads a concrete-length slice of function values.
func (e *Engine) variadicFuncs(st *State, s *Term) []*Term {
	n := SliceLen(s)
	if n.Op != "int" {
		return nil
	}
	var out []*Term
	for name, srt := range e.compSorts {
		if len(name) > 2 && name[:2] == "E:" && srt.Val == IntS {
			for i := int64(0); i < n.IVal.Int64(); i++ {
				v := Select(e.comp(st, name), ElemLoc(SliceBase(s), ElemIndex(SliceOff(s), IntT(i))))
				if v.Op == "int" {
					out = append(out, v)
				}
			}
		}
	}
	return out
}
