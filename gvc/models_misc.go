package main

import (
	"go/types"
	"sort"
)

// constKeys returns the constant string keys of a map whose "has" array is a
// chain of stores with constant keys over the all-false array (a map built by
// a literal or by unconditional assignments), in sorted order.
func constKeys(has *Term) ([]string, bool) {
	var keys []string
	present := map[string]bool{}
	t := has
	for {
		switch t.Op {
		case "store":
			k, v := t.Args[1], t.Args[2]
			if k.Op != "str" {
				return nil, false
			}
			if _, seen := present[k.SVal]; !seen {
				if v.IsTrue() {
					present[k.SVal] = true
				} else if v.IsFalse() {
					present[k.SVal] = false
				} else {
					return nil, false
				}
			}
			t = t.Args[0]
			continue
		case "constarr":
			if !t.Args[0].IsFalse() {
				return nil, false
			}
			for k, p := range present {
				if p {
					keys = append(keys, k)
				}
			}
			sort.Strings(keys)
			return keys, true
		}
		return nil, false
	}
}

func (e *Engine) newStringSlice(st *State, elems []*Term) *Term {
	base := e.allocLoc(st)
	e.leafComp("E:string", types.Typ[types.String])
	for i, el := range elems {
		e.setComp(st, "E:string", Store(e.comp(st, "E:string"), ElemLoc(base, IntT(int64(i))), el))
	}
	n := IntT(int64(len(elems)))
	return MkSlice(base, IntT(0), n, n)
}

func init() {
	extraModels = append(extraModels, func(e *Engine) {
		m := e.models
		// internal/maps.Keys: sorted keys.  For maps with a concrete key set the
		// result is the concrete sorted list (sort.Strings: sorted permutation).
		m[nfpmPath+"/internal/maps.Keys"] = func(c *CallCtx) *Term {
			mt := c.argT[0].Underlying().(*types.Map)
			has, _, _ := e.mapComps(mt)
			h := Select(e.comp(c.rd, has), c.args[0])
			keys, ok := constKeys(h)
			if !ok {
				return e.conditionalKeys(c, h)
			}
			var els []*Term
			for _, k := range keys {
				els = append(els, StrT(k))
			}
			return e.newStringSlice(c.st, els)
		}
		// ---------------- text/template (coarse: output is an uninterpreted
		// function of the template text and the data; see tmpl.go for the
		// precise front end used by the metadata properties) ----------------
		m["text/template.New"] = func(c *CallCtx) *Term {
			l := e.allocLoc(c.st)
			e.ghostSet(c.st, "tmplText", StringS, l, StrT(""))
			return l
		}
		m["(*text/template.Template).Funcs"] = func(c *CallCtx) *Term {
			e.tmplFuncs[c.args[0].id] = c.args[1]
			return c.args[0]
		}
		m["(*text/template.Template).Parse"] = func(c *CallCtx) *Term {
			e.ghostSet(c.st, "tmplText", StringS, c.args[0], c.args[1])
			if c.args[1].Op == "str" {
				return c.ret(c.args[0], NilIface)
			}
			bad := c.nondet("tmplparse")
			return c.ret(Ite(bad, NilLoc, c.args[0]), Ite(bad, e.libErr("tmpl:parse"), NilIface))
		}
		m["text/template.Must"] = func(c *CallCtx) *Term { return c.args[0] }
		m["(*text/template.Template).Execute"] = func(c *CallCtx) *Term {
			return e.templateExecute(c)
		}
		// ---------------- chglog (coarse) ----------------
		m["github.com/goreleaser/chglog.Parse"] = func(c *CallCtx) *Term {
			p := c.args[0]
			ok := uf("fsReadable", BoolS, p)
			okParse := c.nondet("chglogparse")
			c.setFailed(Not(ok))
			good := And(ok, okParse)
			res := e.freshOfType(c.st, c.resT.(*types.Tuple).At(0).Type(), "chglog")
			return c.ret(res, Ite(good, NilIface, e.libErr("chglog")))
		}
		m["github.com/goreleaser/chglog.DebTemplate"] = func(c *CallCtx) *Term {
			ok := c.nondet("debtpl")
			return c.ret(Ite(ok, e.allocLoc(c.st), NilLoc), Ite(ok, NilIface, e.libErr("chglog:tpl")))
		}
		m["github.com/goreleaser/chglog.LoadTemplateData"] = m["github.com/goreleaser/chglog.DebTemplate"]
		m["github.com/goreleaser/chglog.FormatChangelog"] = func(c *CallCtx) *Term {
			ok := c.nondet("fmtchglog")
			return c.ret(Ite(ok, uf("chglogFormat", StringS, LocObj(c.args[0])), StrT("")), Ite(ok, NilIface, e.libErr("chglog:fmt")))
		}
		// a signing callback supplied by the library user: consumes the reader,
		// returns a signature or fails (a primitive failure event).
		m["funcval:H:nfpm.PackageSignature.SignFn"] = func(c *CallCtx) *Term {
			data, rerr := e.drain(c, c.args[0])
			e.globSet(c.st, "signedBytes", StringS, data)
			e.flagSet(c.st, "signerCalled", True)
			fails := c.nondet("signfn")
			c.setFailed(fails)
			e.flagSet(c.st, "signerFailed", Or(e.flagGet(c.st, "signerFailed"), And(c.pc, fails)))
			sig := Fresh("sig", StringS)
			signerErr := MkIface(e.ghostTag("liberr"), Ctor(AnyS, "a_int", Fresh("signerErr", IntS)))
			e.globSet(c.st, "signerErr", IfaceS, Ite(fails, signerErr, e.globGet(c.st, "signerErr", IfaceS)))
			_ = rerr
			return c.ret(Ite(fails, StrT(""), sig), Ite(fails, signerErr, NilIface))
		}
		// ---------------- yaml.v3 decoder: strictness is a property of the decoder ----------------
		Y := "gopkg.in/yaml.v3"
		m[Y+".NewDecoder"] = func(c *CallCtx) *Term {
			l := e.allocLoc(c.st)
			e.ghostSet(c.st, "yamlStrict", BoolS, l, False)
			return l
		}
		m["(*"+Y+".Decoder).KnownFields"] = func(c *CallCtx) *Term {
			e.ghostSet(c.st, "yamlStrict", BoolS, c.args[0], c.args[1])
			return nil
		}
		m["(*"+Y+".Decoder).Decode"] = func(c *CallCtx) *Term {
			// the document is decoded into the target (arbitrary content); keys the
			// target does not define are rejected iff the decoder is strict
			strict := e.ghostGet(c.st, "yamlStrict", BoolS, c.args[0])
			e.flagSet(c.st, "yamlDecodedStrictly", strict)
			if tag := IfaceTag(c.args[1]); tag.Op == "int" {
				T := e.tr.typeOfTag(int(tag.IVal.Int64()))
				e.havocPointee(c.st, T, e.unboxIface(c.st, T, c.args[1]))
			}
			bad := c.nondet("yamldecode")
			return Ite(bad, e.libErr("yaml:decode"), NilIface)
		}
		// ---------------- bufio.Scanner with the default line splitter ----------------
		// The text is seen as lineCount(text) lines lineAt(text, 0..); Scan steps
		// through them.  (Trusted: ScanLines semantics; the relation between the
		// text and its lines is left abstract except that an empty text has none.)
		m["bufio.NewScanner"] = func(c *CallCtx) *Term {
			text, _ := e.drain(c, c.args[0])
			l := e.allocLoc(c.st)
			e.ghostSet(c.st, "scanText", StringS, l, text)
			e.ghostSet(c.st, "scanIdx", IntS, l, IntT(0))
			e.ghostSet(c.st, "scanTok", StringS, l, StrT(""))
			n := uf("lineCount", IntS, text)
			e.axiom(Ge(n, IntT(0)))
			e.axiom(Implies(Eq(text, StrT("")), Eq(n, IntT(0))))
			return l
		}
		m["(*bufio.Scanner).Scan"] = func(c *CallCtx) *Term {
			l := c.args[0]
			text := e.ghostGet(c.st, "scanText", StringS, l)
			idx := e.ghostGet(c.st, "scanIdx", IntS, l)
			n := uf("lineCount", IntS, text)
			more := Lt(idx, n)
			e.ghostSet(c.st, "scanTok", StringS, l, Ite(more, uf("lineAt", StringS, text, idx), StrT("")))
			e.ghostSet(c.st, "scanIdx", IntS, l, Ite(more, Add(idx, IntT(1)), idx))
			return more
		}
		m["(*bufio.Scanner).Bytes"] = func(c *CallCtx) *Term { return e.ghostGet(c.st, "scanTok", StringS, c.args[0]) }
		m["(*bufio.Scanner).Text"] = m["(*bufio.Scanner).Bytes"]
		m["(*os.File).Write"] = func(c *CallCtx) *Term {
			// only os.Stderr is written by the code in scope (deprecation notices)
			return c.ret(StrLen(c.args[1]), NilIface)
		}
	})
}

var extraModels []func(e *Engine)

// templateExecute: coarse model.  The rendered text is an uninterpreted
// function of template text and data; execution may fail (template errors)
// or the writer may fail.
func (e *Engine) templateExecute(c *CallCtx) *Term {
	t, w, data := c.args[0], c.args[1], c.args[2]
	text := e.ghostGet(c.st, "tmplText", StringS, t)
	var out *Term
	if p := e.tmplPrecise; p != nil {
		out = p(c, text, data)
	}
	if out == nil {
		out = uf("tmplRender", StringS, text, IfaceTag(data), uf("anyKey", IntS, IfaceVal(data)))
	}
	bad := c.nondet("tmplexec")
	var werr *Term = NilIface
	e.guarded(c, Not(bad), func(s *CallCtx) {
		_, werr = e.writeTo(s, w, out)
	})
	return Ite(bad, e.libErr("tmpl:exec"), werr)
}

// conditionalKeys: sorted keys of a map built by assignments with constant
// keys under conditions.  With candidates k_0 < ... < k_n and presence
// conditions p_i, the result has length sum(p_i) and its j-th element is the
// present key of rank j.
func (e *Engine) conditionalKeys(c *CallCtx, has *Term) *Term {
	cands := map[string]bool{}
	seen := map[int]bool{}
	okAll := true
	var walk func(t *Term)
	walk = func(t *Term) {
		if seen[t.id] {
			return
		}
		seen[t.id] = true
		switch t.Op {
		case "store":
			if t.Args[1].Op != "str" {
				okAll = false
				return
			}
			cands[t.Args[1].SVal] = true
			walk(t.Args[0])
		case "ite":
			walk(t.Args[1])
			walk(t.Args[2])
		case "constarr":
			if !t.Args[0].IsFalse() {
				okAll = false
			}
		default:
			okAll = false
		}
	}
	walk(has)
	if !okAll || len(cands) > 12 {
		panic(outsideSubset("maps.Keys on a map whose key set is not concrete"))
	}
	var keys []string
	for k := range cands {
		keys = append(keys, k)
	}
	sort.Strings(keys)
	n := len(keys)
	pres := make([]*Term, n)
	rank := make([]*Term, n)
	var count *Term = IntT(0)
	for i, k := range keys {
		pres[i] = Select(has, StrT(k))
		rank[i] = count
		count = Add(count, Ite(pres[i], IntT(1), IntT(0)))
	}
	base := e.allocLoc(c.st)
	e.leafComp("E:string", types.Typ[types.String])
	for j := 0; j < n; j++ {
		var el *Term = StrT("")
		for i := n - 1; i >= 0; i-- {
			el = Ite(And(pres[i], Eq(rank[i], IntT(int64(j)))), StrT(keys[i]), el)
		}
		e.setComp(c.st, "E:string", Store(e.comp(c.st, "E:string"), ElemLoc(base, IntT(int64(j))), el))
	}
	return MkSlice(base, IntT(0), count, count)
}

func init() {
	extraModels = append(extraModels, func(e *Engine) {
		// values that depend on the machine or the scheduler: reading them makes
		// the output a function of more than configuration and sources (C07)
		machine := func(c *CallCtx) *Term {
			e.flagSet(c.st, "envRead", Or(e.flagGet(c.st, "envRead"), c.pc))
			return Fresh("machine", IntS)
		}
		e.models["runtime.GOMAXPROCS"] = machine
		e.models["runtime.NumCPU"] = machine
		e.models["runtime.NumGoroutine"] = machine
		e.models["os.Getpid"] = machine
		e.models["(*github.com/klauspost/pgzip.Writer).SetConcurrency"] = func(c *CallCtx) *Term {
			// output bytes depend on the block size: recorded so that a
			// machine-dependent block size is visible
			e.ghostSet(c.st, "zblocksize", IntS, c.args[0], c.args[1])
			return NilIface
		}
	})
}
