package main

// Mapping of Go types to SMT sorts and of memory to heap components.
//
// Every Go value is one SMT term.  Memory is split into components
// (Burstall–Bornat): one array Loc -> leafSort per (struct type, field),
// per slice/array element type and per standalone cell type.  A location is
// (object id, path); path elements carry a *global* field id so that the
// component of a location is recoverable from its syntax.

import (
	"fmt"
	"go/types"
	"strings"
)

type fieldKey struct {
	T string // struct type string
	K int
}

type TypeReg struct {
	structSorts map[string]*Sort
	structTypes map[string]*types.Struct
	structNames map[string]string // sort name -> go type string
	gids        map[fieldKey]int
	gidInfo     []gidEntry
	tagOf       map[string]int // dynamic type -> tag
	tagTypes    []types.Type   // tag -> type (index 0 unused)
	unsupported map[string]bool
}

type gidEntry struct {
	T     string
	K     int
	Field *types.Var
	Owner types.Type
}

func newTypeReg() *TypeReg {
	return &TypeReg{
		structSorts: map[string]*Sort{}, structTypes: map[string]*types.Struct{}, structNames: map[string]string{},
		gids: map[fieldKey]int{}, tagOf: map[string]int{}, tagTypes: []types.Type{nil},
		unsupported: map[string]bool{},
	}
}

func typeKey(t types.Type) string {
	return types.TypeString(t, nil)
}

func isByte(t types.Type) bool {
	b, ok := t.Underlying().(*types.Basic)
	return ok && (b.Kind() == types.Uint8)
}

func isTimeTime(t types.Type) bool {
	n, ok := t.(*types.Named)
	return ok && n.Obj().Pkg() != nil && n.Obj().Pkg().Path() == "time" && n.Obj().Name() == "Time"
}

// opaque library value types that are modelled as a single Int handle.
func isOpaqueValueType(t types.Type) bool {
	n, ok := t.(*types.Named)
	if !ok || n.Obj().Pkg() == nil {
		return false
	}
	switch n.Obj().Pkg().Path() + "." + n.Obj().Name() {
	case "time.Time", "sync.Mutex", "sync.RWMutex", "sync.Once", "reflect.Value", "time.Location", "regexp.Regexp":
		return true
	}
	return false
}

func (r *TypeReg) sortOf(t types.Type) *Sort {
	if isOpaqueValueType(t) {
		return IntS
	}
	switch u := t.Underlying().(type) {
	case *types.Basic:
		switch {
		case u.Info()&types.IsBoolean != 0:
			return BoolS
		case u.Info()&types.IsInteger != 0:
			return IntS
		case u.Info()&types.IsString != 0:
			return StringS
		case u.Kind() == types.UnsafePointer:
			return LocS
		case u.Kind() == types.UntypedNil:
			return LocS
		case u.Info()&types.IsFloat != 0 || u.Info()&types.IsComplex != 0:
			r.unsupported["float"] = true
			return IntS
		}
	case *types.Pointer:
		return LocS
	case *types.Slice:
		if isByte(u.Elem()) {
			return StringS
		}
		return SliceS
	case *types.Array:
		if isByte(u.Elem()) {
			return StringS
		}
		// array values other than byte arrays only live in memory; as values
		// they are represented by a slice over a fresh object (see executor)
		return SliceS
	case *types.Map, *types.Chan, *types.Signature:
		return IntS
	case *types.Interface:
		return IfaceS
	case *types.Struct:
		return r.structSort(t, u)
	case *types.Tuple:
		return tupleSort
	case *types.TypeParam:
		r.unsupported["typeparam"] = true
		return IntS
	}
	panic("sortOf: unsupported type " + t.String())
}

func sanitize(s string) string {
	var sb strings.Builder
	for _, c := range s {
		switch {
		case c >= 'a' && c <= 'z', c >= 'A' && c <= 'Z', c >= '0' && c <= '9':
			sb.WriteRune(c)
		default:
			sb.WriteByte('_')
		}
	}
	return sb.String()
}

func shortTypeName(k string) string {
	k = strings.ReplaceAll(k, "github.com/goreleaser/nfpm/v2/", "")
	k = strings.ReplaceAll(k, "github.com/goreleaser/nfpm/v2", "nfpm")
	k = strings.ReplaceAll(k, "github.com/", "")
	return k
}

func (r *TypeReg) structSort(t types.Type, st *types.Struct) *Sort {
	k := typeKey(t)
	if s, ok := r.structSorts[k]; ok {
		return s
	}
	name := "S_" + sanitize(shortTypeName(k))
	if len(name) > 60 {
		name = fmt.Sprintf("%s_%d", name[:50], len(r.structSorts))
	}
	for r.structNames[name] != "" {
		name += "x"
	}
	s := newDT(name)
	r.structSorts[k] = s
	r.structTypes[k] = st
	r.structNames[name] = k
	c := CtorDef{Name: "mk_" + name}
	for i := 0; i < st.NumFields(); i++ {
		fs := r.sortOf(st.Field(i).Type())
		c.Fields = append(c.Fields, CtorField{Name: fmt.Sprintf("%s_f%d", name, i), Sort: fs})
	}
	s.DT.Ctors = []CtorDef{c}
	return s
}

// gid returns the global id of field k of struct type t.
func (r *TypeReg) gid(t types.Type, k int) int {
	fk := fieldKey{typeKey(t), k}
	if g, ok := r.gids[fk]; ok {
		return g
	}
	st := t.Underlying().(*types.Struct)
	g := len(r.gidInfo) + 1
	r.gids[fk] = g
	r.gidInfo = append(r.gidInfo, gidEntry{T: fk.T, K: k, Field: st.Field(k), Owner: t})
	return g
}

func (r *TypeReg) gidEntry(g int) *gidEntry {
	if g <= 0 || g > len(r.gidInfo) {
		return nil
	}
	return &r.gidInfo[g-1]
}

// component names
func compField(t types.Type, k int) string {
	st := t.Underlying().(*types.Struct)
	return "H:" + shortTypeName(typeKey(t)) + "." + st.Field(k).Name()
}
func compElem(t types.Type) string { return "E:" + shortTypeName(typeKey(t)) }
func compCell(t types.Type) string { return "C:" + shortTypeName(typeKey(t)) }

// tag returns the interface tag of a dynamic type.
func (r *TypeReg) tag(t types.Type) int {
	k := typeKey(t)
	if g, ok := r.tagOf[k]; ok {
		return g
	}
	g := len(r.tagTypes)
	r.tagOf[k] = g
	r.tagTypes = append(r.tagTypes, t)
	return g
}

func (r *TypeReg) typeOfTag(tag int) types.Type {
	if tag <= 0 || tag >= len(r.tagTypes) {
		return nil
	}
	return r.tagTypes[tag]
}

// isStruct reports whether values of t are struct datatypes (not opaque).
func isStructVal(t types.Type) (*types.Struct, bool) {
	if isOpaqueValueType(t) {
		return nil, false
	}
	st, ok := t.Underlying().(*types.Struct)
	return st, ok
}

// zero value term of a type
func (r *TypeReg) zero(t types.Type) *Term {
	if st, ok := isStructVal(t); ok {
		s := r.structSort(t, st)
		args := make([]*Term, st.NumFields())
		for i := range args {
			args[i] = r.zero(st.Field(i).Type())
		}
		return Ctor(s, s.DT.Ctors[0].Name, args...)
	}
	s := r.sortOf(t)
	switch s {
	case BoolS:
		return False
	case IntS:
		return IntT(0)
	case StringS:
		return StrT("")
	case LocS:
		return NilLoc
	case SliceS:
		return NilSlice
	case IfaceS:
		return NilIface
	}
	panic("zero: " + t.String())
}

// payload wrapping of a value into Any, by sort.
func (r *TypeReg) toAny(t types.Type, v *Term) (*Term, bool) {
	s := r.sortOf(t)
	switch s {
	case LocS:
		return Ctor(AnyS, "a_loc", v), true
	case StringS:
		return Ctor(AnyS, "a_str", v), true
	case IntS:
		return Ctor(AnyS, "a_int", v), true
	case BoolS:
		return Ctor(AnyS, "a_bool", v), true
	case SliceS:
		return Ctor(AnyS, "a_slice", v), true
	}
	return nil, false
}

func (r *TypeReg) fromAny(t types.Type, a *Term) (*Term, bool) {
	s := r.sortOf(t)
	switch s {
	case LocS:
		return Sel(AnyS, "a_loc", "aloc", a), true
	case StringS:
		return Sel(AnyS, "a_str", "astr", a), true
	case IntS:
		return Sel(AnyS, "a_int", "aint", a), true
	case BoolS:
		return Sel(AnyS, "a_bool", "abool", a), true
	case SliceS:
		return Sel(AnyS, "a_slice", "aslice", a), true
	}
	return nil, false
}
