package main

// Description of the symbolic inputs of a function under contract, used to
// ask the solver for concrete values (get-value) and to materialise them as Go
// literals in the replay test.

import (
	"fmt"
	"go/types"
	"strconv"
	"strings"
)

type inputNode struct {
	Name   string // Go parameter name (roots only)
	T      types.Type
	Term   *Term        // scalar value, or nil-check for pointers, or length for slices
	Kind   string       // scalar ptr struct slice unsupported
	Fields []*inputNode // struct fields / pointee / slice elements
	FName  string       // field name (struct fields)
	Value  string       // solver value (filled after solving)
}

const maxInputDepth = 4
const maxSliceElems = 2

func (e *Engine) describeInput(st *State, t types.Type, v *Term, depth int) *inputNode {
	n := &inputNode{T: t}
	if depth > maxInputDepth {
		n.Kind = "unsupported"
		return n
	}
	if isOpaqueValueType(t) {
		if isTimeTime(t) {
			n.Kind, n.Term = "scalar", v
			return n
		}
		n.Kind = "unsupported"
		return n
	}
	switch u := t.Underlying().(type) {
	case *types.Basic:
		n.Kind, n.Term = "scalar", v
	case *types.Pointer:
		n.Kind = "ptr"
		n.Term = Eq(v, NilLoc)
		et := u.Elem()
		if _, ok := isStructVal(et); ok || isScalarType(et) {
			pv := e.loadPtr(st, et, v)
			n.Fields = []*inputNode{e.describeInput(st, et, pv, depth+1)}
		} else {
			n.Kind = "unsupported"
		}
	case *types.Struct:
		n.Kind = "struct"
		s := e.tr.structSort(t, u)
		for i := 0; i < u.NumFields(); i++ {
			f := u.Field(i)
			fv := Sel(s, s.DT.Ctors[0].Name, s.DT.Ctors[0].Fields[i].Name, v)
			c := e.describeInput(st, f.Type(), fv, depth+1)
			c.FName = f.Name()
			if !f.Exported() && f.Pkg() != nil && !strings.HasPrefix(f.Pkg().Path(), nfpmPath) {
				c.Kind = "unsupported"
			}
			n.Fields = append(n.Fields, c)
		}
	case *types.Slice:
		if isByte(u.Elem()) {
			n.Kind, n.Term = "scalar", v
			break
		}
		n.Kind = "slice"
		n.Term = SliceLen(v)
		for i := 0; i < maxSliceElems; i++ {
			l := ElemLoc(SliceBase(v), ElemIndex(SliceOff(v), IntT(int64(i))))
			var ev *Term
			if _, ok := isStructVal(u.Elem()); ok {
				ev = e.loadAt(st, u.Elem(), l, "")
			} else {
				ev = e.loadAt(st, u.Elem(), l, compElem(u.Elem()))
			}
			n.Fields = append(n.Fields, e.describeInput(st, u.Elem(), ev, depth+1))
		}
	default:
		n.Kind = "unsupported"
	}
	return n
}

func isScalarType(t types.Type) bool {
	_, ok := t.Underlying().(*types.Basic)
	return ok
}

func (n *inputNode) terms(out *[]*Term, nodes *[]*inputNode) {
	if n.Term != nil && n.Term.Sort != tupleSort {
		*out = append(*out, n.Term)
		*nodes = append(*nodes, n)
	}
	for _, f := range n.Fields {
		f.terms(out, nodes)
	}
}

// ---- s-expressions ----

func parseSexprs(s string) [][]string { return nil }

type sexp struct {
	atom string
	list []*sexp
	isL  bool
}

func parseSexp(s string, i int) (*sexp, int) {
	for i < len(s) && (s[i] == ' ' || s[i] == '\n' || s[i] == '\t' || s[i] == '\r') {
		i++
	}
	if i >= len(s) {
		return nil, i
	}
	if s[i] == '(' {
		n := &sexp{isL: true}
		i++
		for {
			for i < len(s) && (s[i] == ' ' || s[i] == '\n' || s[i] == '\t' || s[i] == '\r') {
				i++
			}
			if i >= len(s) {
				return n, i
			}
			if s[i] == ')' {
				return n, i + 1
			}
			var c *sexp
			c, i = parseSexp(s, i)
			if c == nil {
				return n, i
			}
			n.list = append(n.list, c)
		}
	}
	if s[i] == '"' {
		j := i + 1
		for j < len(s) {
			if s[j] == '"' {
				if j+1 < len(s) && s[j+1] == '"' {
					j += 2
					continue
				}
				break
			}
			j++
		}
		return &sexp{atom: s[i : j+1]}, j + 1
	}
	if s[i] == '|' {
		j := strings.IndexByte(s[i+1:], '|')
		return &sexp{atom: s[i : i+j+2]}, i + j + 2
	}
	j := i
	for j < len(s) && !strings.ContainsRune(" \n\t\r()", rune(s[j])) {
		j++
	}
	return &sexp{atom: s[i:j]}, j
}

func (x *sexp) String() string {
	if !x.isL {
		return x.atom
	}
	var ps []string
	for _, c := range x.list {
		ps = append(ps, c.String())
	}
	return "(" + strings.Join(ps, " ") + ")"
}

// getValues extracts the values of a (get-value ...) answer, in order.
func getValues(out string) []string {
	// the answer follows the first line ("sat")
	i := strings.Index(out, "\n")
	if i < 0 {
		return nil
	}
	rest := out[i+1:]
	j := strings.Index(rest, "((")
	if j < 0 {
		return nil
	}
	x, _ := parseSexp(rest, j)
	if x == nil || !x.isL {
		return nil
	}
	var vals []string
	for _, p := range x.list {
		if p.isL && len(p.list) == 2 {
			vals = append(vals, p.list[1].String())
		}
	}
	return vals
}

// ---- Go literals ----

func qualifier(pkgPath string) types.Qualifier {
	return func(pk *types.Package) string {
		if pk.Path() == pkgPath {
			return ""
		}
		return pk.Name()
	}
}

// goLiteral renders the materialised input as a Go expression.
func (n *inputNode) goLiteral(pkgPath string, imports map[string]bool) (string, bool) {
	tn := types.TypeString(n.T, qualifier(pkgPath))
	noteImports(n.T, pkgPath, imports)
	switch n.Kind {
	case "scalar":
		if isTimeTime(n.T) {
			imports["time"] = true
			v, ok := smtIntToGo(n.Value)
			if !ok || v == "0" {
				return "time.Time{}", true
			}
			return "time.Unix(" + v + ", 0).UTC()", true
		}
		if sl, ok := n.T.Underlying().(*types.Slice); ok && isByte(sl.Elem()) {
			s, ok := smtStringToGo(n.Value)
			if !ok {
				s = ""
			}
			return "[]byte(" + strconv.Quote(s) + ")", true
		}
		b := n.T.Underlying().(*types.Basic)
		switch {
		case b.Info()&types.IsString != 0:
			s, ok := smtStringToGo(n.Value)
			if !ok {
				s = ""
			}
			return tn + "(" + strconv.Quote(s) + ")", true
		case b.Info()&types.IsInteger != 0:
			v, ok := smtIntToGo(n.Value)
			if !ok {
				v = "0"
			}
			return tn + "(" + v + ")", true
		case b.Info()&types.IsBoolean != 0:
			if strings.TrimSpace(n.Value) == "true" {
				return "true", true
			}
			return "false", true
		}
		return "", false
	case "ptr":
		if strings.TrimSpace(n.Value) == "true" || len(n.Fields) == 0 {
			return "nil", true
		}
		inner, ok := n.Fields[0].goLiteral(pkgPath, imports)
		if !ok {
			return "", false
		}
		if n.Fields[0].Kind == "struct" {
			return "&" + inner, true
		}
		return fmt.Sprintf("func() %s { v := %s; return &v }()", tn, inner), true
	case "struct":
		var fs []string
		for _, f := range n.Fields {
			if f.Kind == "unsupported" {
				continue
			}
			l, ok := f.goLiteral(pkgPath, imports)
			if !ok {
				continue
			}
			fs = append(fs, f.FName+": "+l)
		}
		return tn + "{" + strings.Join(fs, ", ") + "}", true
	case "slice":
		ln, _ := smtIntToGo(n.Value)
		k, _ := strconv.Atoi(ln)
		if k <= 0 {
			return "nil", true
		}
		if k > len(n.Fields) {
			k = len(n.Fields) // longer slices are truncated to the elements the model describes
		}
		var els []string
		for i := 0; i < k; i++ {
			l, ok := n.Fields[i].goLiteral(pkgPath, imports)
			if !ok {
				return "nil", true
			}
			els = append(els, l)
		}
		return tn + "{" + strings.Join(els, ", ") + "}", true
	}
	return "", false
}

func noteImports(t types.Type, pkgPath string, imports map[string]bool) {
	switch u := t.(type) {
	case *types.Alias:
		if u.Obj().Pkg() != nil && u.Obj().Pkg().Path() != pkgPath {
			imports[u.Obj().Pkg().Path()] = true
		}
	case *types.Named:
		if u.Obj().Pkg() != nil && u.Obj().Pkg().Path() != pkgPath {
			imports[u.Obj().Pkg().Path()] = true
		}
	case *types.Pointer:
		noteImports(u.Elem(), pkgPath, imports)
	case *types.Slice:
		noteImports(u.Elem(), pkgPath, imports)
	}
}
