package main

// Front end for text/template: the constant template text is parsed by the
// real text/template/parse package and executed symbolically over the data
// value.  The trusted part is that the library's executor implements the
// documented semantics of the node kinds used here (text, actions with field
// chains / variables / function calls / pipelines, if, with, range).

import (
	"fmt"
	"go/types"
	"sort"
	"strings"
	"text/template/parse"
)

type tval struct {
	t *Term
	T types.Type
}

type tmplEnv struct {
	c     *CallCtx
	e     *Engine
	funcs map[string]*Term // name -> function value (closure id term)
	vars  []map[string]tval
	out   []*Term
	ok    bool
	why   string
	name  string
}

func (te *tmplEnv) fail(why string) {
	if te.ok {
		te.ok = false
		te.why = why
	}
}

// preciseTemplate renders the template symbolically; nil if a construct is not supported.
func (e *Engine) preciseTemplate(c *CallCtx, tmplLoc *Term, text *Term, data *Term) *Term {
	if text.Op != "str" {
		return nil
	}
	trees, err := parse.Parse("t", text.SVal, "", "", builtinStubs(), e.funcStubs(c, tmplLoc))
	if err != nil {
		e.note("template does not parse: " + err.Error())
		return nil
	}
	tree := trees["t"]
	if tree == nil || tree.Root == nil {
		return nil
	}
	te := &tmplEnv{c: c, e: e, funcs: e.funcMapOf(c, tmplLoc), ok: true}
	tag := IfaceTag(data)
	if tag.Op != "int" {
		return nil
	}
	T := e.tr.typeOfTag(int(tag.IVal.Int64()))
	dot := tval{e.unboxIface(c.st, T, data), T}
	te.vars = []map[string]tval{{"$": dot}}
	te.walkList(tree.Root, dot)
	if !te.ok {
		e.note("template construct not modelled precisely (" + te.why + "): output abstracted")
		return nil
	}
	return Concat(te.out...)
}

func builtinStubs() map[string]any {
	m := map[string]any{}
	for _, n := range []string{"and", "or", "not", "eq", "ne", "lt", "le", "gt", "ge", "len", "index", "print", "printf", "println", "html", "js", "urlquery", "call", "slice"} {
		m[n] = func() {}
	}
	return m
}

// funcMapOf reads the FuncMap registered with Funcs (a map with constant keys).
func (e *Engine) funcMapOf(c *CallCtx, tmplLoc *Term) map[string]*Term {
	out := map[string]*Term{}
	fm, ok := e.tmplFuncs[tmplLoc.id]
	if !ok {
		return out
	}
	for name, srt := range e.compSorts {
		if !strings.HasPrefix(name, "MH:") || srt.Val.Kind != "array" || srt.Val.Key != StringS {
			continue
		}
		h := Select(e.comp(c.st, name), fm)
		keys, ok := constKeys(h)
		if !ok {
			continue
		}
		vname := "MV:" + strings.TrimPrefix(name, "MH:")
		for _, k := range keys {
			out[k] = Select(Select(e.comp(c.st, vname), fm), StrT(k))
		}
	}
	return out
}

func (e *Engine) funcStubs(c *CallCtx, tmplLoc *Term) map[string]any {
	m := map[string]any{}
	for k := range e.funcMapOf(c, tmplLoc) {
		m[k] = func() {}
	}
	return m
}

func (te *tmplEnv) lookupVar(name string) (tval, bool) {
	for i := len(te.vars) - 1; i >= 0; i-- {
		if v, ok := te.vars[i][name]; ok {
			return v, true
		}
	}
	return tval{}, false
}

func (te *tmplEnv) emit(t *Term) { te.out = append(te.out, t) }

func (te *tmplEnv) walkList(l *parse.ListNode, dot tval) {
	if l == nil {
		return
	}
	for _, n := range l.Nodes {
		if !te.ok {
			return
		}
		te.walk(n, dot)
	}
}

// sub renders a list into a single term (used for branches).
func (te *tmplEnv) sub(l *parse.ListNode, dot tval) *Term {
	saved := te.out
	te.out = nil
	te.vars = append(te.vars, map[string]tval{})
	te.walkList(l, dot)
	te.vars = te.vars[:len(te.vars)-1]
	r := Concat(te.out...)
	te.out = saved
	return r
}

func (te *tmplEnv) walk(n parse.Node, dot tval) {
	switch x := n.(type) {
	case *parse.TextNode:
		te.emit(StrT(string(x.Text)))
	case *parse.CommentNode:
	case *parse.ActionNode:
		v, ok := te.pipeline(x.Pipe, dot)
		if !ok {
			return
		}
		if len(x.Pipe.Decl) == 0 {
			te.emit(te.print(v))
		}
	case *parse.IfNode:
		v, ok := te.pipeline(x.Pipe, dot)
		if !ok {
			return
		}
		c := te.truth(v)
		a := te.sub(x.List, dot)
		b := StrT("")
		if x.ElseList != nil {
			b = te.sub(x.ElseList, dot)
		}
		te.emit(Ite(c, a, b))
	case *parse.WithNode:
		v, ok := te.pipeline(x.Pipe, dot)
		if !ok {
			return
		}
		c := te.truth(v)
		a := te.sub(x.List, v)
		b := StrT("")
		if x.ElseList != nil {
			b = te.sub(x.ElseList, dot)
		}
		te.emit(Ite(c, a, b))
	case *parse.RangeNode:
		te.rangeNode(x, dot)
	default:
		te.fail(fmt.Sprintf("node %T", n))
	}
}

func (te *tmplEnv) truth(v tval) *Term {
	e := te.e
	switch u := v.T.Underlying().(type) {
	case *types.Basic:
		switch e.tr.sortOf(v.T) {
		case StringS:
			return Neq(v.t, StrT(""))
		case IntS:
			return Neq(v.t, IntT(0))
		case BoolS:
			return v.t
		}
	case *types.Slice:
		if isByte(u.Elem()) {
			return Neq(v.t, StrT(""))
		}
		return Not(Eq(SliceLen(v.t), IntT(0)))
	case *types.Map:
		_, _, ln := e.mapComps(u)
		return And(Neq(v.t, IntT(0)), Gt(Select(e.comp(te.c.st, ln), v.t), IntT(0)))
	case *types.Pointer:
		return Neq(v.t, NilLoc)
	case *types.Interface:
		return Neq(v.t, NilIface)
	}
	te.fail("truth of " + v.T.String())
	return True
}

func (te *tmplEnv) print(v tval) *Term {
	e := te.e
	if isTimeTime(v.T) {
		return uf("timeString", StringS, v.t)
	}
	switch e.tr.sortOf(v.T) {
	case StringS:
		if sl, ok := v.T.Underlying().(*types.Slice); ok && isByte(sl.Elem()) {
			return uf("fmtBytes", StringS, v.t)
		}
		return v.t
	case IntS:
		if _, ok := v.T.Underlying().(*types.Basic); ok {
			return itoa(v.t)
		}
	case BoolS:
		return Ite(v.t, StrT("true"), StrT("false"))
	}
	te.fail("print of " + v.T.String())
	return StrT("")
}

func (te *tmplEnv) field(v tval, name string) (tval, bool) {
	e := te.e
	T := v.T
	t := v.t
	if pt, ok := T.Underlying().(*types.Pointer); ok {
		// field through a pointer: read from memory
		st, ok := pt.Elem().Underlying().(*types.Struct)
		if !ok {
			te.fail("field of pointer to non-struct")
			return tval{}, false
		}
		for i := 0; i < st.NumFields(); i++ {
			if st.Field(i).Name() == name {
				fl := e.fieldAddr(t, pt.Elem(), i)
				return tval{e.loadAt(te.c.st, st.Field(i).Type(), fl, compField(pt.Elem(), i)), st.Field(i).Type()}, true
			}
		}
		// promoted field of an embedded struct
		for i := 0; i < st.NumFields(); i++ {
			if st.Field(i).Embedded() {
				fl := e.fieldAddr(t, pt.Elem(), i)
				inner := tval{e.loadAt(te.c.st, st.Field(i).Type(), fl, compField(pt.Elem(), i)), st.Field(i).Type()}
				if r, ok := te.field(inner, name); ok {
					return r, true
				}
			}
		}
		te.fail("no field " + name)
		return tval{}, false
	}
	st, ok := T.Underlying().(*types.Struct)
	if !ok {
		te.fail("field " + name + " of " + T.String())
		return tval{}, false
	}
	s := e.tr.structSort(T, st)
	for i := 0; i < st.NumFields(); i++ {
		if st.Field(i).Name() == name {
			return tval{Sel(s, s.DT.Ctors[0].Name, s.DT.Ctors[0].Fields[i].Name, t), st.Field(i).Type()}, true
		}
	}
	for i := 0; i < st.NumFields(); i++ {
		if st.Field(i).Embedded() {
			inner := tval{Sel(s, s.DT.Ctors[0].Name, s.DT.Ctors[0].Fields[i].Name, t), st.Field(i).Type()}
			saveOK, saveWhy := te.ok, te.why
			if r, ok := te.field(inner, name); ok {
				return r, true
			}
			te.ok, te.why = saveOK, saveWhy
		}
	}
	te.fail("no field " + name + " in " + T.String())
	return tval{}, false
}

func (te *tmplEnv) pipeline(p *parse.PipeNode, dot tval) (tval, bool) {
	if p == nil {
		te.fail("nil pipeline")
		return tval{}, false
	}
	var v tval
	have := false
	for _, cmd := range p.Cmds {
		var ok bool
		v, ok = te.command(cmd, dot, v, have)
		if !ok {
			return tval{}, false
		}
		have = true
	}
	for _, d := range p.Decl {
		te.vars[len(te.vars)-1][d.Ident[0]] = v
	}
	return v, true
}

func (te *tmplEnv) command(cmd *parse.CommandNode, dot tval, final tval, haveFinal bool) (tval, bool) {
	first := cmd.Args[0]
	switch x := first.(type) {
	case *parse.IdentifierNode:
		var args []tval
		for _, a := range cmd.Args[1:] {
			v, ok := te.arg(a, dot)
			if !ok {
				return tval{}, false
			}
			args = append(args, v)
		}
		if haveFinal {
			args = append(args, final)
		}
		return te.callFunc(x.Ident, args)
	case *parse.PipeNode:
		return te.pipeline(x, dot)
	}
	if len(cmd.Args) != 1 || haveFinal {
		te.fail("command with arguments on a non-function")
		return tval{}, false
	}
	return te.arg(first, dot)
}

func (te *tmplEnv) arg(n parse.Node, dot tval) (tval, bool) {
	switch x := n.(type) {
	case *parse.DotNode:
		return dot, true
	case *parse.FieldNode:
		v := dot
		for _, id := range x.Ident {
			var ok bool
			v, ok = te.field(v, id)
			if !ok {
				return tval{}, false
			}
		}
		return v, true
	case *parse.VariableNode:
		v, ok := te.lookupVar(x.Ident[0])
		if !ok {
			te.fail("variable " + x.Ident[0])
			return tval{}, false
		}
		for _, id := range x.Ident[1:] {
			v, ok = te.field(v, id)
			if !ok {
				return tval{}, false
			}
		}
		return v, true
	case *parse.StringNode:
		return tval{StrT(x.Text), types.Typ[types.String]}, true
	case *parse.NumberNode:
		if x.IsInt {
			return tval{IntT(x.Int64), types.Typ[types.Int]}, true
		}
	case *parse.BoolNode:
		return tval{BoolT(x.True), types.Typ[types.Bool]}, true
	case *parse.PipeNode:
		return te.pipeline(x, dot)
	case *parse.ChainNode:
		v, ok := te.arg(x.Node, dot)
		if !ok {
			return tval{}, false
		}
		for _, id := range x.Field {
			v, ok = te.field(v, id)
			if !ok {
				return tval{}, false
			}
		}
		return v, true
	}
	te.fail(fmt.Sprintf("argument %T", n))
	return tval{}, false
}

func (te *tmplEnv) callFunc(name string, args []tval) (tval, bool) {
	e := te.e
	switch name {
	case "ne", "eq":
		if len(args) == 2 && e.tr.sortOf(args[0].T) == e.tr.sortOf(args[1].T) {
			r := Eq(args[0].t, args[1].t)
			if name == "ne" {
				r = Not(r)
			}
			return tval{r, types.Typ[types.Bool]}, true
		}
	case "not":
		if len(args) == 1 {
			return tval{Not(te.truth(args[0])), types.Typ[types.Bool]}, true
		}
	case "len":
		if len(args) == 1 {
			switch e.tr.sortOf(args[0].T) {
			case StringS:
				return tval{StrLen(args[0].t), types.Typ[types.Int]}, true
			case SliceS:
				return tval{SliceLen(args[0].t), types.Typ[types.Int]}, true
			}
		}
	}
	fv, ok := te.funcs[name]
	if !ok {
		te.fail("function " + name)
		return tval{}, false
	}
	if fv.Sort == IfaceS {
		if tag := IfaceTag(fv); tag.Op == "int" {
			fv = e.unboxIface(te.c.st, e.tr.typeOfTag(int(tag.IVal.Int64())), fv)
		}
	}
	if fv.Op != "int" {
		te.fail("function value of " + name + " not concrete: " + fv.Op)
		return tval{}, false
	}
	cl := e.closureOf(fv.IVal.Int64())
	if cl == nil {
		te.fail("unknown function value for " + name)
		return tval{}, false
	}
	sigp := cl.fn.Signature.Params()
	if len(args) != sigp.Len() {
		te.fail(fmt.Sprintf("arity of %s: %d args, %s has %d params", name, len(args), cl.fn.String(), sigp.Len()))
		return tval{}, false
	}
	var ts []*Term
	for i, a := range args {
		if typeKey(a.T) != typeKey(sigp.At(i).Type()) {
			// assignable named/unnamed types with equal representation are accepted
			if e.tr.sortOf(a.T) != e.tr.sortOf(sigp.At(i).Type()) {
				te.fail("argument type of " + name)
				return tval{}, false
			}
		}
		ts = append(ts, a.t)
	}
	res := cl.fn.Signature.Results()
	if res.Len() != 1 {
		te.fail("results of " + name)
		return tval{}, false
	}
	r, _ := e.callFn(te.c.fr, te.c.instr, cl.fn, ts, cl.bindings, res.At(0).Type(), te.c.st, te.c.pc, te.c.label+".tmpl."+name)
	if r == nil {
		te.fail("no result from " + name)
		return tval{}, false
	}
	if len(ts) == 1 {
		e.callHist[fmt.Sprintf("%s(%d)", fnName(cl.fn), ts[0].id)] = r
	}
	return tval{r, res.At(0).Type()}, true
}

// rangeNode: slices of concrete length are unrolled; a slice of symbolic
// length whose body has the shape  TEXT elem TEXT  becomes the uninterpreted
// fold strEach(prefix, suffix, elements); a map is an uninterpreted fold over
// its sorted keys.
func (te *tmplEnv) rangeNode(x *parse.RangeNode, dot tval) {
	e := te.e
	v, ok := te.pipeline2(x.Pipe, dot)
	if !ok {
		return
	}
	decl := x.Pipe.Decl
	bind := func(idx tval, el tval) {
		m := te.vars[len(te.vars)-1]
		switch len(decl) {
		case 1:
			m[decl[0].Ident[0]] = el
		case 2:
			m[decl[0].Ident[0]] = idx
			m[decl[1].Ident[0]] = el
		}
	}
	switch u := v.T.Underlying().(type) {
	case *types.Slice:
		if isByte(u.Elem()) {
			te.fail("range over bytes")
			return
		}
		n := SliceLen(v.t)
		elemAt := func(i *Term) tval {
			l := ElemLoc(SliceBase(v.t), ElemIndex(SliceOff(v.t), i))
			if _, isS := isStructVal(u.Elem()); isS {
				return tval{e.loadAt(te.c.st, u.Elem(), l, ""), u.Elem()}
			}
			return tval{e.loadAt(te.c.st, u.Elem(), l, compElem(u.Elem())), u.Elem()}
		}
		if n.Op == "int" && n.IVal.Int64() <= 16 {
			for i := int64(0); i < n.IVal.Int64(); i++ {
				te.vars = append(te.vars, map[string]tval{})
				bind(tval{IntT(i), types.Typ[types.Int]}, elemAt(IntT(i)))
				te.walkList(x.List, elemAt(IntT(i)))
				te.vars = te.vars[:len(te.vars)-1]
			}
			if n.IVal.Int64() == 0 && x.ElseList != nil {
				te.walkList(x.ElseList, dot)
			}
			return
		}
		if e.tr.sortOf(u.Elem()) == StringS && x.ElseList == nil {
			// body rendered for a placeholder element
			ph := Fresh("tmpl.elem", StringS)
			te.vars = append(te.vars, map[string]tval{})
			bind(tval{Fresh("tmpl.idx", IntS), types.Typ[types.Int]}, tval{ph, u.Elem()})
			body := te.sub(x.List, tval{ph, u.Elem()})
			te.vars = te.vars[:len(te.vars)-1]
			pre, suf, ok := splitAround(body, ph)
			if ok {
				e.leafComp("E:string", types.Typ[types.String])
				te.emit(e.strEach(te.c.st, pre, suf, v.t))
				return
			}
		}
		r := Fresh("tmplrange", StringS)
		e.callHist["range:"+x.Pipe.Cmds[0].String()] = r
		te.emit(r)
		e.note("template range over a slice of symbolic length with a complex body: rendered text left unconstrained")
	case *types.Map:
		has, val, _ := e.mapComps(u)
		r := uf(fmt.Sprintf("tmplMapRange:%s:%d", te.name, x.Pos), StringS, Select(e.comp(te.c.st, has), v.t), Select(e.comp(te.c.st, val), v.t), v.t)
		e.callHist["range:"+x.Pipe.Cmds[0].String()] = r
		te.emit(r)
		e.note("template range over a map: rendered as an uninterpreted fold over the sorted keys")
	default:
		te.fail("range over " + v.T.String())
	}
}

// pipeline2 evaluates a range pipeline without binding its declarations.
func (te *tmplEnv) pipeline2(p *parse.PipeNode, dot tval) (tval, bool) {
	var v tval
	have := false
	for _, cmd := range p.Cmds {
		var ok bool
		v, ok = te.command(cmd, dot, v, have)
		if !ok {
			return tval{}, false
		}
		have = true
	}
	return v, true
}

// splitAround decomposes body = pre ++ ph ++ suf with constant-free-of-ph parts.
func splitAround(body, ph *Term) (*Term, *Term, bool) {
	parts := []*Term{body}
	if body.Op == "str.++" {
		parts = body.Args
	}
	idx := -1
	for i, p := range parts {
		if p == ph {
			if idx >= 0 {
				return nil, nil, false
			}
			idx = i
		} else if containsTerm(p, ph) {
			return nil, nil, false
		}
	}
	if idx < 0 {
		return nil, nil, false
	}
	return Concat(parts[:idx]...), Concat(parts[idx+1:]...), true
}

func containsTerm(t, x *Term) bool {
	seen := map[int]bool{}
	var walk func(t *Term) bool
	walk = func(t *Term) bool {
		if t == x {
			return true
		}
		if seen[t.id] {
			return false
		}
		seen[t.id] = true
		for _, a := range t.Args {
			if walk(a) {
				return true
			}
		}
		return false
	}
	return walk(t)
}

// strEach(pre, suf, items) = concatenation over the items of pre+item+suf.
// Defined over the element heap; a store of the last element (the in-place
// append of an accumulator) unfolds the definition, stores to other places
// are skipped, and a choice between two heaps distributes.
func (e *Engine) strEach(st *State, pre, suf, s *Term) *Term {
	if els := e.stringElems(st, s); els != nil && len(els) <= 8 {
		var parts []*Term
		for _, el := range els {
			parts = append(parts, pre, el, suf)
		}
		return Concat(parts...)
	}
	return e.strEachOn(e.comp(st, "E:string"), pre, suf, SliceBase(s), SliceOff(s), SliceLen(s), 0)
}

func (e *Engine) strEachOn(E, pre, suf, base, off, n *Term, depth int) *Term {
	return e.strEachCtx(True, E, pre, suf, base, off, n, depth)
}

func (e *Engine) strEachCtx(ctx, E, pre, suf, base, off, n *Term, depth int) *Term {
	if n.Op == "int" && n.IVal.Sign() <= 0 {
		return StrT("")
	}
	if depth < 8 {
		// a choice of slices / heaps on one condition
		for _, x := range []*Term{n, base, E} {
			if x.Op == "ite" {
				c := x.Args[0]
				r := func(t, c *Term) *Term {
					if t.Op == "ite" && t.Args[0] == c {
						return t.Args[1]
					}
					if t.Op == "ite" && Not(t.Args[0]) == c {
						return t.Args[2]
					}
					return Restrict(t, c)
				}
				ra := e.strEachCtx(And(ctx, c), r(E, c), pre, suf, r(base, c), r(off, c), r(n, c), depth+1)
				rb := e.strEachCtx(And(ctx, Not(c)), r(E, Not(c)), pre, suf, r(base, Not(c)), r(off, Not(c)), r(n, Not(c)), depth+1)
				return Ite(c, ra, rb)
			}
		}
		if E.Op == "store" {
			loc := Restrict(E.Args[1], ctx)
			last := ElemLoc(base, ElemIndex(off, Sub(n, IntT(1))))
			if loc == last {
				return Concat(e.strEachCtx(ctx, E.Args[0], pre, suf, base, off, Sub(n, IntT(1)), depth+1), pre, Restrict(E.Args[2], ctx), suf)
			}
			// a store to another object does not matter
			if distinctObjs(LocObj(loc), LocObj(base)) {
				return e.strEachCtx(ctx, E.Args[0], pre, suf, base, off, n, depth)
			}
		}
	}
	r := uf("strEach", StringS, pre, suf, E, base, off, n)
	e.axiom(Implies(Le(n, IntT(0)), Eq(r, StrT(""))))
	return r
}

// distinctObjs: syntactically different allocation ids.
func distinctObjs(a, b *Term) bool {
	if a == b {
		return false
	}
	return Eq(a, b).IsFalse()
}

func init() {
	extraModels = append(extraModels, func(e *Engine) {
		e.tmplPrecise = func(c *CallCtx, text, data *Term) *Term {
			return e.preciseTemplate(c, c.args[0], text, data)
		}
	})
}

var _ = sort.Strings
