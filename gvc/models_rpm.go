package main

import (
	"go/types"
)

const rpmpackPath = "github.com/google/rpmpack"

// callFuncValue calls a function value (closure id) from inside a model.
func (e *Engine) callFuncValue(c *CallCtx, fv *Term, args []*Term, resT types.Type) *Term {
	cases := e.possibleTags(fv)
	var edges []edge
	var results []*Term
	for _, tc := range cases {
		if tc.tag == 0 {
			continue
		}
		s2 := c.st.clone()
		p2 := And(c.pc, tc.cond)
		var r *Term
		if cl := e.closureOf(int64(tc.tag)); tc.tag >= closureBase && cl != nil {
			r, _ = e.callFn(c.fr, c.instr, cl.fn, args, cl.bindings, resT, s2, p2, c.label+".call")
		} else {
			e.unmodelled["funcvalue-from-model"]++
			r = e.freshOfType(s2, resT, "ext")
		}
		edges = append(edges, edge{pc: tc.cond, st: s2})
		results = append(results, r)
	}
	if len(edges) == 0 {
		return e.freshOfType(c.st, resT, "ext")
	}
	m := e.mergeStates(edges)
	c.st.comps = m.comps
	var res *Term
	for i := len(results) - 1; i >= 0; i-- {
		if res == nil {
			res = results[i]
		} else {
			res = Ite(edges[i].pc, results[i], res)
		}
	}
	return res
}

func init() {
	extraModels = append(extraModels, func(e *Engine) {
		m := e.models
		P := rpmpackPath
		m[P+".NewRPM"] = func(c *CallCtx) *Term {
			l := e.allocLoc(c.st)
			MT := e.namedType(P, "RPMMetaData")
			s := e.tr.sortOf(MT)
			e.declComp("X:rpmMeta", ArrayOf(LocS, s))
			e.setComp(c.st, "X:rpmMeta", Store(e.comp(c.st, "X:rpmMeta"), l, c.args[0]))
			e.ghostSet(c.st, "rpmSigner", IntS, l, IntT(0))
			e.ghostSet(c.st, "rpmFiles", IntS, l, IntT(0))
			for _, slot := range []string{"prein", "postin", "preun", "postun", "pretrans", "posttrans", "verifyscript"} {
				e.ghostSet(c.st, "rpm:"+slot, StringS, l, StrT(""))
				e.ghostSet(c.st, "rpmset:"+slot, BoolS, l, False)
			}
			// the compressor setting is validated here
			comp := Sel(s, s.DT.Ctors[0].Name, e.structFieldSel(MT, "Compressor"), c.args[0])
			okc := uf("rpmCompressorOK", BoolS, comp)
			return c.ret(Ite(okc, l, NilLoc), Ite(okc, NilIface, e.libErr("rpm:compressor")))
		}
		m["(*"+P+".RPM).SetPGPSigner"] = func(c *CallCtx) *Term {
			e.ghostSet(c.st, "rpmSigner", IntS, c.args[0], c.args[1])
			return nil
		}
		for _, sl := range []struct{ meth, slot string }{
			{"AddPrein", "prein"}, {"AddPostin", "postin"}, {"AddPreun", "preun"}, {"AddPostun", "postun"},
			{"AddPretrans", "pretrans"}, {"AddPosttrans", "posttrans"}, {"AddVerifyScript", "verifyscript"},
		} {
			slot := sl.slot
			m["(*"+P+".RPM)."+sl.meth] = func(c *CallCtx) *Term {
				e.ghostSet(c.st, "rpm:"+slot, StringS, c.args[0], c.args[1])
				e.ghostSet(c.st, "rpmset:"+slot, BoolS, c.args[0], True)
				return nil
			}
		}
		m["(*"+P+".RPM).AddFile"] = func(c *CallCtx) *Term {
			FT := e.namedType(P, "RPMFile")
			s := e.tr.sortOf(FT)
			f := c.args[1]
			g := func(n string) *Term { return Sel(s, s.DT.Ctors[0].Name, e.structFieldSel(FT, n), f) }
			entry := uf("rpmFile", IntS, g("Name"), g("Body"), g("Mode"), g("Owner"), g("Group"), g("MTime"), g("Type"))
			old := e.ghostGet(c.st, "rpmFiles", IntS, c.args[0])
			// AddFile ignores the root directory; files are keyed by name
			e.ghostSet(c.st, "rpmFiles", IntS, c.args[0], Ite(Eq(g("Name"), StrT("/")), old, uf("tcons", IntS, old, entry)))
			return nil
		}
		m["(*"+P+".RPM).AddCustomTag"] = func(c *CallCtx) *Term {
			old := e.ghostGet(c.st, "rpmTags", IntS, c.args[0])
			e.ghostSet(c.st, "rpmTags", IntS, c.args[0], uf("tcons", IntS, old, uf("rpmTag", IntS, c.args[1], LocObj(c.args[2]))))
			return nil
		}
		m[P+".EntryUint32"] = func(c *CallCtx) *Term { return e.allocLoc(c.st) }
		m[P+".EntryStringSlice"] = func(c *CallCtx) *Term { return e.allocLoc(c.st) }
		m["(*"+P+".Relations).Set"] = func(c *CallCtx) *Term {
			// parses "name op version"; appends to the receiver slice
			ok := uf("rpmRelationOK", BoolS, c.args[1])
			RT := e.namedType(P, "Relations")
			old := e.loadPtr(c.st, RT, c.args[0])
			nl := e.allocLoc(c.st)
			n := SliceLen(old)
			e.ghostSet(c.st, "relTrace", IntS, nl, uf("tcons", IntS, e.ghostGet(c.st, "relTrace", IntS, SliceBase(old)), uf("rpmRel", IntS, c.args[1])))
			// the relations held by the list, one per line, in order (an empty list holds none)
			prev := Ite(Eq(n, IntT(0)), StrT(""), e.ghostGet(c.st, "relLines", StringS, SliceBase(old)))
			e.ghostSet(c.st, "relLines", StringS, nl, Ite(ok, Concat(prev, c.args[1], StrT("\n")), prev))
			nv := MkSlice(nl, IntT(0), Add(n, IntT(1)), Add(n, IntT(1)))
			e.storePtr(c.st, RT, c.args[0], Ite(ok, nv, old), c.pc)
			return Ite(ok, NilIface, e.libErr("rpm:relation"))
		}
		m["(*"+P+".RPM).Write"] = func(c *CallCtx) *Term {
			r, w := c.args[0], c.args[1]
			signer := e.ghostGet(c.st, "rpmSigner", IntS, r)
			hasSigner := Neq(signer, IntT(0))
			var sigErr *Term = NilIface
			e.guarded(c, hasSigner, func(s *CallCtx) {
				hdr := uf("rpmHeaderBytes", StringS, LocObj(r), e.ghostGet(s.st, "rpmFiles", IntS, r))
				res := e.callFuncValue(s, signer, []*Term{hdr}, tupleOf(types.NewSlice(types.Typ[types.Uint8]), errType()))
				sigErr = res.Elems[1]
			})
			sigErr = Ite(hasSigner, sigErr, NilIface)
			failedSig := Neq(sigErr, NilIface)
			// rpmpack wraps the signer's error with %w
			wrapID := e.newObj(c.st)
			wl := MkLoc(wrapID, PNil)
			e.ghostSet(c.st, "errmsg", StringS, wl, uf("rpmSignErrMsg", StringS, sigErr))
			e.ghostSet(c.st, "errwrap", IfaceS, wl, sigErr)
			wrapped := MkIface(e.ghostTag("fmtError"), Ctor(AnyS, "a_box", wrapID))
			var werr *Term = NilIface
			e.guarded(c, Not(failedSig), func(s *CallCtx) {
				data := uf("rpmBytes", StringS, LocObj(r), e.ghostGet(s.st, "rpmFiles", IntS, r))
				// lead, signature header, header, payload: several writes
				_, e1 := e.writeTo(s, w, uf("rpmPart1", StringS, data))
				var e2 *Term = NilIface
				e.guarded(s, Eq(e1, NilIface), func(s2 *CallCtx) {
					_, e2 = e.writeTo(s2, w, uf("rpmPart2", StringS, data))
				})
				werr = Ite(Eq(e1, NilIface), e2, e1)
				internal := s.nondet("rpmwrite") // compressor / cpio errors inside rpmpack
				werr = Ite(Eq(werr, NilIface), Ite(internal, e.libErr("rpm:internal"), NilIface), werr)
			})
			return Ite(failedSig, wrapped, werr)
		}
	})
}

// structFieldSel returns the selector name of a named field of a struct sort.
func (e *Engine) structFieldSel(T types.Type, name string) string {
	st := T.Underlying().(*types.Struct)
	s := e.tr.structSort(T, st)
	for i := 0; i < st.NumFields(); i++ {
		if st.Field(i).Name() == name {
			return s.DT.Ctors[0].Fields[i].Name
		}
	}
	panic("no field " + name)
}
