package main

import (
	"fmt"
	"go/types"
	"sort"
	"strings"

	"golang.org/x/tools/go/ssa"
)

const initAllocBase = 1000

// runInits executes the package initialisers of nfpm's own packages to obtain
// the initial values of package-level variables.
func (e *Engine) runInits(ld *Loaded) *State {
	st := newState()
	st.comps[allocComp] = IntT(initAllocBase)
	var paths []string
	for p := range ld.spkgs {
		if strings.HasPrefix(p, nfpmPath) {
			paths = append(paths, p)
		}
	}
	sort.Strings(paths)
	e.inInit = true
	defer func() { e.inInit = false }()
	for _, p := range paths {
		sp := ld.spkgs[p]
		init := sp.Func("init")
		if init == nil || init.Blocks == nil {
			continue
		}
		func() {
			defer func() {
				if r := recover(); r != nil {
					e.note(fmt.Sprintf("init of %s not fully executed: %v", p, r))
				}
			}()
			e.topFn = init
			root := &Frame{clause: true}
			_, out, _ := e.execFunction(init, nil, nil, st, True, root, "", nil, false)
			st.comps = out.comps
		}()
	}
	e.assumes = nil
	e.assumePCs = nil
	e.axioms = nil
	e.axiomSeen = map[int]bool{}
	e.inInit = false
	for k, t := range st.comps {
		s := e.compSortOf(k)
		if s.Kind == "array" {
			st.comps[k] = rebase(t, Sym("0:"+k, s))
		}
	}
	return st
}

type FuncResult struct {
	Fn        string
	Contract  *Contract
	Obls      []*Obligation
	Err       string
	Notes     map[string]int
	Unmod     map[string]int
	Models    []string
	Axioms    []*Term
	Assumes   []*Term
	AssumePCs []*Term
}

// verifyFunctionCases: one result per truth assignment of the contract's
// `case` conditions (a single result when there are none).
func (e *Engine) verifyFunctionCases(c *Contract, init *State) []*FuncResult {
	n := len(c.Cases)
	if n == 0 {
		return []*FuncResult{e.verifyFunction(c, init, -1)}
	}
	if n > 8 {
		n = 8
	}
	var out []*FuncResult
	for bits := 0; bits < 1<<n; bits++ {
		out = append(out, e.verifyFunction(c, init, bits))
		caseTruth = nil
	}
	return out
}

// verifyFunction generates the obligations of one function under contract.
func (e *Engine) verifyFunction(c *Contract, init *State, caseBits int) (res *FuncResult) {
	caseTruth = nil
	e.caseSuffix = ""
	fn := e.funcsByName[c.Key]
	res = &FuncResult{Fn: shortFn(fn), Contract: c}
	// per-function reset
	e.assumes = nil
	e.assumePCs = nil
	e.axioms = nil
	e.axiomSeen = map[int]bool{}
	e.loadedFacts = map[int]bool{}
	e.heapBound = map[string]*Term{}
	e.obls = nil
	e.notes = map[string]int{}
	e.unmodelled = map[string]int{}
	e.usedModels = map[string]bool{}
	e.bitDefs = nil
	e.pureSeen = map[int]bool{}
	e.pureConst = map[int]*Term{}
	e.byteRefs = map[int]bool{}
	e.lists = map[int][]*Term{}
	e.pairs = map[int][2]*Term{}
	e.replacers = map[int][]*Term{}
	e.tmplFuncs = map[int]*Term{}
	e.callHist = map[string]*Term{}
	e.callCount = map[string]int{}
	e.allocParent = map[int]*Term{}
	e.topFn = fn
	e.topContract = c
	e.depth = 0
	defer func() {
		if r := recover(); r != nil {
			if o, ok := r.(outsideSubset); ok {
				res.Err = o.Error()
			} else {
				res.Err = fmt.Sprintf("engine error: %v", r)
				if e.debug {
					panic(r)
				}
			}
		}
		res.Obls = e.obls
		for _, o := range e.obls {
			o.inputs = e.inputs
			if o.contract == nil {
				o.contract = c
			}
		}
		res.Axioms = e.axioms
		res.Assumes = e.assumes
		res.AssumePCs = e.assumePCs
		res.Notes = e.notes
		res.Unmod = e.unmodelled
		for k := range e.usedModels {
			res.Models = append(res.Models, k)
		}
		sort.Strings(res.Models)
	}()
	if c.Trusted {
		return
	}
	st := init.clone()
	A0 := Sym("A0", IntS)
	e.axiom(Ge(A0, e.comp(init, allocComp)))
	NoteLowerBound(A0, e.comp(init, allocComp))
	e.inputLow = e.comp(init, allocComp)
	st.comps[allocComp] = A0
	e.alloc0 = A0
	var args []*Term
	for _, p := range fn.Params {
		args = append(args, e.inputValue(st, p.Type(), "p:"+p.Name()))
	}
	var bindings []*Term
	for _, fv := range fn.FreeVars {
		bindings = append(bindings, e.inputValue(st, fv.Type(), "fv:"+fv.Name()))
	}
	// type invariant of archive writers received as inputs: open, between two
	// entries, no sticky error, writing to some caller-supplied writer
	for i, p := range fn.Params {
		if typeKey(p.Type()) == "*archive/tar.Writer" {
			e.inputTarWriter(st, args[i], "p:"+p.Name())
		}
	}
	for i, fv := range fn.FreeVars {
		if typeKey(fv.Type()) == "*archive/tar.Writer" {
			e.inputTarWriter(st, bindings[i], "fv:"+fv.Name())
		}
	}
	entry := st.clone()
	e.inputs = nil
	for i, p := range fn.Params {
		n := e.describeInput(entry, p.Type(), args[i], 0)
		n.Name = p.Name()
		e.inputs = append(e.inputs, n)
	}
	// modifies set and frame obligations
	e.frameOn = c.FrameOn
	e.frameProps = c.Frame
	e.modLocs = nil
	for _, cl := range c.Modifies {
		margs := args
		if len(c.captures) > 0 {
			margs = append(append([]*Term{}, args...), e.captureVals(c, fn, bindings, st)...)
		}
		for _, mt := range e.evalModifies(nil, cl, margs, st, True) {
			switch mt.kind {
			case "loc":
				e.modLocs = append(e.modLocs, modLoc{loc: mt.loc})
			case "map":
				e.modLocs = append(e.modLocs, modLoc{obj: mt.loc})
			case "elems":
				e.modLocs = append(e.modLocs, modLoc{obj: LocObj(mt.loc)})
			}
		}
	}
	cargs := args
	if len(c.captures) > 0 {
		cargs = append(append([]*Term{}, args...), e.captureVals(c, fn, bindings, st)...)
	}
	reqTruth := map[int]bool{}
	for _, cl := range c.Requires {
		g := e.evalClause(nil, cl, cargs, nil, st, entry, True)
		e.assume(True, g)
		// atoms decided by the precondition are folded into the terms built
		// from here on (they are assumed in every query anyway)
		for _, a := range conj(g) {
			v := true
			for a.Op == "not" {
				a, v = a.Args[0], !v
			}
			if a.Sort == BoolS && !a.IsConst() && a.Op != "forall" && a.Op != "and" && a.Op != "or" && !a.hasBound {
				reqTruth[a.id] = v
			}
		}
	}
	if len(reqTruth) > 0 && caseBits < 0 {
		caseTruth = reqTruth
	}
	if caseBits >= 0 {
		truth := reqTruth
		var lits []*Term
		for i, cl := range c.Cases {
			if i >= 8 {
				break
			}
			a := e.evalClause(nil, cl, cargs, nil, st, entry, True)
			v := caseBits&(1<<i) != 0
			if v {
				lits = append(lits, a)
				e.caseSuffix += "T"
			} else {
				lits = append(lits, Not(a))
				e.caseSuffix += "F"
			}
			for a.Op == "not" {
				a, v = a.Args[0], !v
			}
			truth[a.id] = v
		}
		for _, l := range lits {
			e.assume(True, l)
		}
		e.caseSuffix = " {case " + e.caseSuffix + "}"
		caseTruth = truth
	}
	r, out, pcOut := e.execFunction(fn, args, bindings, st, True, nil, "", nil, false)
	if len(c.captures) > 0 {
		args = append(append([]*Term{}, args...), e.captureVals(c, fn, bindings, out)...)
	}
	var resArgs []*Term
	if r != nil {
		if r.Op == "tuple" {
			resArgs = r.Elems
		} else {
			resArgs = []*Term{r}
		}
	}
	// postconditions are checked separately on every return path (the state
	// and the result of one path are far simpler than their merge)
	rets := e.topRets
	perPath := len(rets) > 1 && len(rets) <= 40
	checkEnsures := func(suffix string, pcR *Term, stR *State, resR []*Term) {
		cargsR := args
		if len(c.captures) > 0 {
			cargsR = append(append([]*Term{}, args[:len(fn.Params)]...), e.captureVals(c, fn, bindings, stR)...)
		}
		for _, cl := range c.Ensures {
			g := e.evalClause(nil, cl, cargsR, resR, stR, entry, pcR)
			g = RestrictGoal(g, pcR)
			n0 := len(e.obls)
			e.addObl(nil, "ensures", cl.Label+suffix, cl.Props, pcR, g, fmt.Sprintf("%s:%d", strings.TrimPrefix(c.File, "/repo/"), cl.Line))
			for _, o := range e.obls[n0:] {
				o.contract = c
				o.clause = cl
			}
		}
	}
	if perPath {
		for k, rt := range rets {
			var resR []*Term
			if rt.val != nil {
				if rt.val.Op == "tuple" {
					resR = rt.val.Elems
				} else {
					resR = []*Term{rt.val}
				}
			}
			stR := rt.st.withVals(st.vals)
			checkEnsures(fmt.Sprintf("@ret%d", k), rt.pc, stR, resR)
		}
	} else {
		checkEnsures("", pcOut, out, resArgs)
	}
	// automatic postcondition: results do not point to package-level objects
	// (objects allocated by package initialisation).  Callers rely on it to
	// keep results apart from such objects syntactically.
	for i, rv := range resArgs {
		var obj *Term
		switch rv.Sort {
		case LocS:
			obj = LocObj(rv)
		case SliceS:
			obj = LocObj(SliceBase(rv))
		}
		if obj != nil {
			g := Or(Eq(obj, IntT(0)), Ge(obj, e.inputLow))
			if !Implies(pcOut, g).IsTrue() {
				e.addObl(nil, "ensures", fmt.Sprintf("auto-result%d-not-package-level", i), c.allProps(), pcOut, g, strings.TrimPrefix(c.File, "/repo/"))
			}
		}
	}
	// vacuity guards: the preconditions are satisfiable and a normal exit is reachable
	e.addCover("cover", "pre", True)
	e.addCover("cover", "exit", pcOut)
	return
}

func (e *Engine) addCover(kind, label string, pc *Term) {
	id := fmt.Sprintf("%s/%s:%s", shortFn(e.topFn), kind, label) + e.caseSuffix
	var props []string
	if e.topContract != nil {
		props = e.topContract.allProps()
	}
	e.obls = append(e.obls, &Obligation{ID: id, Kind: kind, Props: props, PC: pc, Goal: False, NAssum: len(e.assumes), Fn: shortFn(e.topFn), Cover: true})
}

func (e *Engine) addCoverIn(fr *Frame, label string, pc *Term) {
	id := fmt.Sprintf("%s/cover:%s", shortFn(e.topFn), label)
	if fr != nil && fr.path+fr.iter != "" {
		id += " @" + fr.path + fr.iter
	}
	id += e.caseSuffix
	if n := e.oblIDs[id]; n > 0 {
		e.oblIDs[id] = n + 1
		id = fmt.Sprintf("%s ~%d", id, n)
	} else {
		e.oblIDs[id] = 1
	}
	var props []string
	if e.topContract != nil {
		props = e.allPropsDeep(e.topContract)
	}
	e.obls = append(e.obls, &Obligation{ID: id, Kind: "cover", Props: props, PC: pc, Goal: False, NAssum: len(e.assumes), Fn: shortFn(e.topFn), Cover: true})
}

func (c *Contract) allProps() []string {
	set := map[string]bool{}
	add := func(cls []*Clause) {
		for _, cl := range cls {
			for _, p := range cl.Props {
				set[p] = true
			}
		}
	}
	add(c.Requires)
	add(c.OnStore)
	add(c.Ensures)
	add(c.Modifies)
	for _, l := range c.Loops {
		add(l.Invs)
	}
	for _, p := range c.Frame {
		set[p] = true
	}
	return sortedKeys(set)
}

// inputValue creates a symbolic input of type t.
func (e *Engine) inputValue(st *State, t types.Type, name string) *Term {
	if stt, ok := isStructVal(t); ok {
		s := e.tr.structSort(t, stt)
		args := make([]*Term, stt.NumFields())
		for i := range args {
			args[i] = e.inputValue(st, stt.Field(i).Type(), name+"."+stt.Field(i).Name())
		}
		return Ctor(s, s.DT.Ctors[0].Name, args...)
	}
	v := Sym(name, e.tr.sortOf(t))
	e.wellFormedValue(t, v, e.alloc0)
	e.inputObjFacts(t, v)
	return v
}

// inputObjFacts: objects reachable from inputs are neither package-level
// variables nor objects allocated by package initialisation.
func (e *Engine) inputObjFacts(t types.Type, v *Term) { e.inputObjFactsIf(True, t, v) }

func (e *Engine) inputObjFactsIf(g *Term, t types.Type, v *Term) {
	lowOK := func(obj *Term) *Term {
		if g.IsTrue() {
			NoteNilOrGe(obj, e.inputLow)
		}
		return Implies(g, Or(Eq(obj, IntT(0)), Ge(obj, e.inputLow)))
	}
	switch e.tr.sortOf(t) {
	case LocS:
		e.axiom(lowOK(LocObj(v)))
	case SliceS:
		e.axiom(lowOK(LocObj(SliceBase(v))))
	case IntS:
		if _, isMap := t.Underlying().(*types.Map); isMap {
			e.axiom(lowOK(v))
		}
	case IfaceS:
		// interface-typed inputs have a dynamic type outside the program (a
		// caller-supplied writer, reader, error ...), or are nil
		e.axiom(Implies(g, Or(Eq(v, NilIface), Eq(IfaceTag(v), IntT(-1)))))
	}
}

var _ = ssa.NaiveForm

func (e *Engine) inputTarWriter(st *State, l *Term, name string) {
	under := Sym(name+".under", IfaceS)
	e.axiom(Eq(IfaceTag(under), IntT(-1)))
	pad := Sym(name+".pad", IntS)
	e.axiom(And(Le(IntT(0), pad), Lt(pad, IntT(512))))
	e.ghostSet(st, "under", IfaceS, l, under)
	e.ghostSet(st, "werr", IfaceS, l, NilIface)
	e.ghostSet(st, "tarPad", IntS, l, pad)
	e.ghostSet(st, "tarRemaining", IntS, l, IntT(0))
	e.ghostSet(st, "tarClosed", BoolS, l, False)
	e.ghostSet(st, "entries", IntS, l, Sym(name+".entries", IntS))
	e.ghostSet(st, "tarBytes", IntS, l, Sym(name+".bytes", IntS))
	e.ghostSet(st, "tarStream", StringS, l, Sym(name+".stream", StringS))
	e.ghostSet(st, "tarManifest", StringS, l, Sym(name+".manifest", StringS))
	e.note("input *tar.Writer assumed open, between entries and without a sticky error")
}
