package main

import (
	"fmt"
	"go/types"
	"sort"

	"golang.org/x/tools/go/ssa"
)

func init() {
	extraModels = append(extraModels, func(e *Engine) {
		m := e.models
		// filepath.WalkDir(root, fn): fn is called for an unknown number of
		// entries.  Treated like a loop whose body is one call of fn and whose
		// invariant is the `requires` part of fn's contract: it is checked
		// before the walk, assumed for an arbitrary intermediate state, and
		// checked again after one more call that returned nil.
		m["path/filepath.WalkDir"] = func(c *CallCtx) *Term {
			fv := c.args[1]
			if fv.Op != "int" {
				panic(outsideSubset("filepath.WalkDir with a non-literal callback"))
			}
			cl := e.closureOf(fv.IVal.Int64())
			if cl == nil {
				panic(outsideSubset("filepath.WalkDir: unknown callback"))
			}
			ct := e.contracts[fnName(cl.fn)]
			if ct == nil {
				panic(outsideSubset("filepath.WalkDir: the callback " + shortFn(cl.fn) + " needs a contract (its requires clauses are the walk invariant)"))
			}
			fr := c.fr
			callArgs := func(st *State) []*Term {
				path := Fresh("walk.path", StringS)
				d := Fresh("walk.entry", IfaceS)
				e.axiom(Eq(IfaceTag(d), IntT(-1)))
				werr := Ite(Fresh("nd:walkerr", BoolS), e.libErr("walk"), NilIface)
				return []*Term{path, d, werr}
			}
			evalInv := func(st *State, args []*Term, pc *Term, kind string, assume bool) {
				all := append(append([]*Term{}, args...), e.captureVals(ct, cl.fn, cl.bindings, st)...)
				for _, rq := range ct.Requires {
					root := &Frame{clause: true, freshBase: e.alloc0}
					_ = root
					saved := rq.Kind
					rq.Kind = "invariant" // fresh(x) is relative to the function under verification
					g := e.evalClause(fr, rq, all, nil, st, st, pc)
					rq.Kind = saved
					if assume {
						e.assume(pc, g)
					} else {
						e.addObl(fr, kind, fmt.Sprintf("%s.walk.%s", shortFn(cl.fn), rq.Label), rq.Props, pc, g, fmt.Sprintf("%s:%d", ct.File, rq.Line))
					}
				}
			}
			a0 := callArgs(c.st)
			evalInv(c.st, a0, c.pc, "inv-init", false)
			// discovery of what one call may write
			dirty := map[string]bool{}
			for round := 0; round < 4; round++ {
				saveAss := len(e.assumes)
				saveDirty := e.dirty
				e.dirty = map[string]bool{}
				e.quiet++
				stD := e.havocComps(c.st, dirty)
				func() {
					defer func() {
						e.quiet--
						e.assumes = e.assumes[:saveAss]
						e.assumePCs = e.assumePCs[:saveAss]
					}()
					e.callFn(fr, c.instr, cl.fn, callArgs(stD), cl.bindings, errType(), stD, c.pc, c.label+".walkfn")
				}()
				grew := false
				for k := range e.dirty {
					if !dirty[k] {
						dirty[k] = true
						grew = true
					}
					if saveDirty != nil {
						saveDirty[k] = true
					}
				}
				e.dirty = saveDirty
				if !grew {
					break
				}
			}
			// arbitrary intermediate state
			stH := e.havocComps(c.st, dirty)
			a1 := callArgs(stH)
			evalInv(stH, a1, c.pc, "", true)
			pre1 := stH.clone()
			r, pcAfter := e.callFn(fr, c.instr, cl.fn, a1, cl.bindings, errType(), stH, c.pc, c.label+".walkfn")
			okPC := c.pc
			if r != nil {
				okPC = And(pcAfter, Eq(r, NilIface))
			}
			// postconditions of the callback: checked after this one call
			if len(ct.Ensures) > 0 && r != nil {
				all := append(append([]*Term{}, a1...), e.captureVals(ct, cl.fn, cl.bindings, stH)...)
				for _, en := range ct.Ensures {
					saved := en.Kind
					en.Kind = "invariant"
					g := e.evalClause(fr, en, all, []*Term{r}, stH, pre1, pcAfter)
					en.Kind = saved
					e.addObl(fr, "ensures", fmt.Sprintf("%s.walk.%s", shortFn(cl.fn), en.Label), en.Props, pcAfter, g, fmt.Sprintf("%s:%d", ct.File, en.Line))
				}
			}
			evalInv(stH, callArgs(stH), okPC, "inv-step", false)
			// state after the walk: any state satisfying the invariant
			stE := e.havocComps(c.st, dirty)
			evalInv(stE, callArgs(stE), c.pc, "", true)
			c.st.comps = stE.comps
			// the walk returns nil or an error (from the callback or the file system)
			failed := c.nondet("walk")
			return Ite(failed, e.libErr("walkdir"), NilIface)
		}
		// sort.Sort(x): x's elements are permuted so that !Less(j+1, j) for all j.
		m["sort.Sort"] = func(c *CallCtx) *Term {
			x := c.args[0]
			tag := IfaceTag(x)
			if tag.Op != "int" {
				panic(outsideSubset("sort.Sort on an unknown dynamic type"))
			}
			T := e.tr.typeOfTag(int(tag.IVal.Int64()))
			sl, ok := T.Underlying().(*types.Slice)
			if !ok {
				panic(outsideSubset("sort.Sort on " + T.String()))
			}
			s := e.payloadTerm(x)
			et := sl.Elem()
			if _, isS := isStructVal(et); isS {
				panic(outsideSubset("sort.Sort on a slice of structs"))
			}
			comp := compElem(et)
			e.leafComp(comp, et)
			old := e.comp(c.st, comp)
			nw := Fresh("sorted:"+comp, old.Sort)
			e.heapBound[nw.SVal] = e.comp(c.st, allocComp)
			base, off, n := SliceBase(s), SliceOff(s), SliceLen(s)
			l := BoundVar(LocS)
			e.assume(c.pc, Forall([]*Term{l}, Implies(Neq(LocObj(l), LocObj(base)), Eq(Select(nw, l), Select(old, l)))))
			// permutation: every new element is some old element and vice versa
			pi := DeclUF(fmt.Sprintf("perm!%d", nw.id), IntS, IntS)
			pinv := DeclUF(fmt.Sprintf("perminv!%d", nw.id), IntS, IntS)
			j := BoundVar(IntS)
			inR := func(v *Term) *Term { return And(Le(IntT(0), v), Lt(v, n)) }
			e.assume(c.pc, Forall([]*Term{j}, Implies(inR(j), And(inR(App(pi, j)),
				Eq(Select(nw, ElemLoc(base, ElemIndex(off, j))), Select(old, ElemLoc(base, ElemIndex(off, App(pi, j))))),
				Eq(App(pinv, App(pi, j)), j)))))
			e.setComp(c.st, comp, nw)
			// sortedness by the type's own Less, evaluated symbolically
			sel := e.prog.MethodSets.MethodSet(T).Lookup(nil, "Less")
			if sel == nil {
				for i := 0; i < e.prog.MethodSets.MethodSet(T).Len(); i++ {
					if e.prog.MethodSets.MethodSet(T).At(i).Obj().Name() == "Less" {
						sel = e.prog.MethodSets.MethodSet(T).At(i)
					}
				}
			}
			if sel != nil {
				less := e.prog.MethodValue(sel)
				if less != nil && less.Blocks != nil {
					k := BoundVar(IntS)
					root := &Frame{clause: true}
					lt, _, _ := e.execFunction(less, []*Term{s, Add(k, IntT(1)), k}, nil, c.st.clone(), c.pc, root, "", nil, false)
					e.assume(c.pc, Forall([]*Term{k}, Implies(And(Le(IntT(0), k), Lt(Add(k, IntT(1)), n)), Not(lt))))
				}
			}
			e.note("model:sort.Sort (result is a permutation, adjacent elements are ordered by Less)")
			return nil
		}
		m["sort.Strings"] = func(c *CallCtx) *Term {
			e.note("model:sort.Strings (elements permuted; order facts not used)")
			return nil
		}
		m["slices.Contains"] = func(c *CallCtx) *Term {
			s := c.args[0]
			e.leafComp("E:string", types.Typ[types.String])
			return uf("slicesContains", BoolS, e.comp(c.rd, "E:string"), SliceBase(s), SliceOff(s), SliceLen(s), c.args[1])
		}
		// slices.Delete(s, i, j) on a []string with j == i+1: the elements behind
		// the removed one move down by one, the rest of the backing array is
		// unspecified (Go clears it), the result shares the backing array
		m["slices.Delete"] = func(c *CallCtx) *Term {
			s, i, j := c.args[0], c.args[1], c.args[2]
			st, isSlice := c.argT[0].Underlying().(*types.Slice)
			if !isSlice || e.tr.sortOf(st.Elem()) != StringS || !Eq(j, Add(i, IntT(1))).IsTrue() {
				panic(outsideSubset("slices.Delete other than removing one element of a []string"))
			}
			e.leafComp("E:string", types.Typ[types.String])
			old := e.comp(c.st, "E:string")
			nw := Fresh("del:E:string", old.Sort)
			e.heapBound[nw.SVal] = e.comp(c.st, allocComp)
			l := BoundVar(LocS)
			e.assume(c.pc, Forall([]*Term{l}, Implies(Neq(LocObj(l), LocObj(SliceBase(s))), Eq(Select(nw, l), Select(old, l)))))
			k := BoundVar(IntS)
			at := func(arr, idx *Term) *Term {
				return Select(arr, ElemLoc(SliceBase(s), ElemIndex(SliceOff(s), idx)))
			}
			e.assume(c.pc, Forall([]*Term{k}, Implies(And(Le(IntT(0), k), Lt(k, i)), Eq(at(nw, k), at(old, k)))))
			k2 := BoundVar(IntS)
			e.assume(c.pc, Forall([]*Term{k2}, Implies(And(Le(i, k2), Lt(k2, Sub(SliceLen(s), IntT(1)))), Eq(at(nw, k2), at(old, Add(k2, IntT(1)))))))
			e.setComp(c.st, "E:string", nw)
			return MkSlice(SliceBase(s), SliceOff(s), Sub(SliceLen(s), IntT(1)), SliceCap(s))
		}
		// ---------------- fileglob (assumed) ----------------
		fg := "github.com/goreleaser/fileglob"
		m[fg+".Glob"] = func(c *CallCtx) *Term {
			pat := c.args[0]
			ok := uf("globOK", BoolS, pat)
			// a pattern that cannot be resolved (missing source) is a failure event
			c.setFailed(Not(ok))
			base := e.allocLoc(c.st)
			n := uf("globCount", IntS, pat)
			e.axiom(Ge(n, IntT(0)))
			res := MkSlice(base, IntT(0), n, n)
			return c.ret(Ite(ok, res, NilSlice), Ite(ok, NilIface, MkIface(e.ghostTag("liberr"), Ctor(AnyS, "a_int", uf("globErr", IntS, pat)))))
		}
		m[fg+".ContainsMatchers"] = func(c *CallCtx) *Term { return uf("globHasMatchers", BoolS, c.args[0]) }
		// ---------------- fs.DirEntry / fs.FileInfo supplied by the walk ----------------
		m["ext:io/fs.DirEntry.IsDir"] = func(c *CallCtx) *Term { return uf("deIsDir", BoolS, c.args[0]) }
		m["ext:io/fs.DirEntry.Type"] = func(c *CallCtx) *Term {
			r := uf("deType", IntS, c.args[0])
			e.axiom(And(Ge(r, IntT(0)), Lt(r, pow2(32))))
			return r
		}
		m["ext:io/fs.DirEntry.Info"] = func(c *CallCtx) *Term {
			ok := c.nondet("deinfo")
			fi := MkIface(e.ghostTag("deFileInfo"), Ctor(AnyS, "a_int", uf("deInfoID", IntS, c.args[0])))
			return c.ret(Ite(ok, fi, NilIface), Ite(ok, NilIface, e.libErr("deinfo")))
		}
		m["ghost:deFileInfo.Mode"] = func(c *CallCtx) *Term {
			r := uf("deInfoMode", IntS, e.payloadTerm(c.args[0]))
			e.axiom(And(Ge(r, IntT(0)), Lt(r, pow2(32))))
			return r
		}
		m["ghost:deFileInfo.ModTime"] = func(c *CallCtx) *Term { return uf("deInfoMTime", IntS, e.payloadTerm(c.args[0])) }
		m["ghost:deFileInfo.Size"] = func(c *CallCtx) *Term { return uf("deInfoSize", IntS, e.payloadTerm(c.args[0])) }
		m["(io/fs.FileMode).IsRegular"] = func(c *CallCtx) *Term {
			return Eq(DivE(ModE(c.args[0], pow2(32)), pow2(18)), uf("modeTypeBitsZero", IntS, c.args[0]))
		}
	})
}

// havocComps returns a copy of st with the given components replaced by fresh symbols.
func (e *Engine) havocComps(st *State, dirty map[string]bool) *State {
	out := st.clone()
	var ks []string
	for k := range dirty {
		ks = append(ks, k)
	}
	sort.Strings(ks)
	if dirty[allocComp] {
		f := Fresh("hv:"+allocComp, IntS)
		e.axiom(Ge(f, e.comp(st, allocComp)))
		e.noteAllocGe(f, e.comp(st, allocComp))
		out.comps[allocComp] = f
	}
	for _, k := range ks {
		if k == allocComp {
			continue
		}
		f := Fresh("hv:"+k, e.compSortOf(k))
		out.comps[k] = f
		e.heapBound[f.SVal] = e.comp(out, allocComp)
	}
	return out
}

var _ = ssa.NaiveForm
