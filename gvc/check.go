package main

func checkCmd(args []string) int { return 0 }
