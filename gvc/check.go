package main

import (
	"encoding/json"
	"flag"
	"fmt"
	"golang.org/x/tools/go/ssa"
	"os"
	"os/exec"
	"path/filepath"
	"regexp"
	"sort"
	"strconv"
	"strings"
	"sync"
	"time"
)

const verifDir = "/verif"

type KnownFinding struct {
	Property   string `json:"property"`
	Obligation string `json:"obligation"`
	What       string `json:"what"`
	Witness    string `json:"witness,omitempty"`
}

type FixedEntry struct {
	Property   string `json:"property"`
	Obligation string `json:"obligation"`
	Commit     string `json:"commit"`
	What       string `json:"what_failed"`
}

type NotClaimed struct {
	Property   string `json:"property"`
	Obligation string `json:"obligation"`
	Reason     string `json:"reason"`
}

type FindingsFile struct {
	Known      []KnownFinding `json:"known_findings"`
	Fixed      []FixedEntry   `json:"fixed"`
	NotClaimed []NotClaimed   `json:"not_claimed"`
}

type LockFile map[string]map[string]string // property -> obligation id -> expected status

func readJSON(path string, v any) error {
	b, err := os.ReadFile(path)
	if err != nil {
		return err
	}
	return json.Unmarshal(b, v)
}

func writeJSON(path string, v any) error {
	b, err := json.MarshalIndent(v, "", " ")
	if err != nil {
		return err
	}
	return os.WriteFile(path, append(b, '\n'), 0o644)
}

type oblReport struct {
	ID     string  `json:"id"`
	Kind   string  `json:"kind"`
	Status string  `json:"status"`
	Solver string  `json:"solver,omitempty"`
	Secs   float64 `json:"solver_s"`
	SMT    int     `json:"smt_bytes"`
	Pos    string  `json:"at,omitempty"`
}

func hasProp(ps []string, p string) bool {
	for _, x := range ps {
		if x == p {
			return true
		}
	}
	return false
}

func checkCmd(args []string) int {
	fs := flag.NewFlagSet("check", flag.ExitOnError)
	relock := fs.Bool("relock", false, "rewrite the lock entry of this property from the current results")
	keep := fs.Bool("keep", false, "keep SMT files")
	dry := fs.Bool("dry", false, "self-test run on a scratch tree: no evidence, no replay on the real code, no lock update")
	fs.Parse(args)
	if fs.NArg() < 1 {
		fmt.Fprintln(os.Stderr, "usage: gvc check [-relock] <property> [quick|thorough]")
		return 2
	}
	prop := fs.Arg(0)
	tier := "quick"
	if fs.NArg() > 1 {
		tier = fs.Arg(1)
	}
	if t := os.Getenv("VERIF_TIER"); t != "" && fs.NArg() < 2 {
		tier = t
	}
	seed := 0
	if s := os.Getenv("VERIF_SEED"); s != "" {
		seed, _ = strconv.Atoi(s)
	}
	t0 := time.Now()
	timeout := 90
	needAll := false
	if tier == "thorough" {
		timeout = 240
		needAll = true
	}
	evPath := filepath.Join(verifDir, "evidence", prop+".json")
	if *dry {
		evPath = filepath.Join(os.TempDir(), fmt.Sprintf("gvc-dry-%d-%s.json", os.Getpid(), prop))
		defer os.Remove(evPath)
		dryRun = true
	}
	os.MkdirAll(filepath.Dir(evPath), 0o755)
	os.Remove(evPath)
	fail := func(msg string) int {
		// a broken check: report it loudly, never as a pass
		fmt.Printf("CHECK-BROKEN property=%s %s\n", prop, msg)
		rp := writeReplay(prop, "check-broken", map[string]any{"reason": msg})
		fmt.Printf("VIOLATION property=%s replay=%s no-failing-input-found\n", prop, rp)
		writeEvidence(evPath, prop, tier, seed, time.Since(t0).Seconds(), nil, nil, nil, 1, []string{"check broken: " + msg}, nil)
		return 1
	}
	s, err := newSession(false)
	if err != nil {
		return fail("the contract files no longer load or type-check against the code: " + firstLines(err.Error(), 6))
	}
	e := s.e
	var lock LockFile
	readJSON(filepath.Join(verifDir, "obligations.lock"), &lock)
	if lock == nil {
		lock = LockFile{}
	}
	var findings FindingsFile
	readJSON(filepath.Join(verifDir, "known-findings.json"), &findings)

	var all []*Obligation
	var funcs, outside []string
	notes := map[string]int{}
	unmod := map[string]int{}
	models := map[string]bool{}
	type solveJob struct {
		r    *FuncResult
		obls []*Obligation
	}
	var jobs []solveJob
	execS := 0.0
	for _, c := range s.contractsSorted() {
		if !hasProp(e.allPropsDeep(c), prop) {
			continue
		}
		if c.Trusted {
			notes["trusted contract (assumed, body not verified): "+c.Key]++
			continue
		}
		if c.Inline && len(c.Ensures)+len(c.Requires) == 0 && len(c.Modifies) == 0 {
			continue // loop specifications of an inlined function: checked in its callers
		}
		if c.Callback {
			continue // a callback contract: checked where the callback is used (e.g. the walk model)
		}
		t1 := time.Now()
		results := e.verifyFunctionCases(c, s.init)
		execS += time.Since(t1).Seconds()
		for ri, r := range results {
			if ri == 0 {
				funcs = append(funcs, r.Fn)
			}
			if r.Err != "" {
				outside = append(outside, r.Fn+": "+r.Err)
			}
			for k, n := range r.Notes {
				notes[k] += n
			}
			for k, n := range r.Unmod {
				unmod[k] += n
			}
			for _, m := range r.Models {
				models[m] = true
			}
			var mine []*Obligation
			for _, o := range r.Obls {
				if o.Cover && strings.HasSuffix(o.ID, "cover:exit") && tier != "thorough" {
					continue // reachability of the exit is only attempted in the thorough tier
				}
				if hasProp(o.Props, prop) {
					mine = append(mine, o)
				}
			}
			staticDischarge(mine)
			jobs = append(jobs, solveJob{r, mine})
			all = append(all, mine...)
		}
	}
	// declaration-level obligations (decided by the generator on the typed program)
	all = append(all, e.declObligations(prop)...)
	// spec-level lemmas checked by an independent prover (Lean 4, core only)
	for _, lm := range lemmaFiles[prop] {
		o := runLeanLemma(lm)
		o.Props = []string{prop}
		all = append(all, o)
	}
	smtDir, _ := os.MkdirTemp("", "gvc-"+prop+"-")
	if !*keep {
		defer os.RemoveAll(smtDir)
	}
	for _, o := range all {
		for _, k := range findings.Known {
			if k.Property == prop && k.Obligation == o.ID {
				o.knownFinding = true
			}
		}
		for _, k := range findings.NotClaimed {
			if (k.Property == prop || k.Property == "*") && k.Obligation == o.ID {
				o.knownFinding = true
			}
		}
	}
	pool := make(chan struct{}, 6)
	for _, j := range jobs {
		e.renderScripts(j.obls, j.r.Axioms, j.r.Assumes, j.r.AssumePCs)
	}
	var wgAll sync.WaitGroup
	for _, j := range jobs {
		j := j
		wgAll.Add(1)
		go func() {
			defer wgAll.Done()
			e.runScripts(j.obls, filepath.Join(smtDir, sanitize(j.r.Fn)), timeout, pool, needAll)
		}()
	}
	wgAll.Wait()
	if len(all) == 0 {
		return fail("no obligations were generated for this property (vacuous check)")
	}
	if len(outside) > 0 && !*relock {
		// a function under contract left the supported subset: its obligations
		// are incomplete, which the lock comparison below reports
		for _, o := range outside {
			fmt.Printf("NOTE outside-subset %s\n", o)
		}
	}
	// classification
	known := map[string]KnownFinding{}
	for _, k := range findings.Known {
		if k.Property == prop {
			known[k.Obligation] = k
		}
	}
	notClaimed := map[string]string{}
	for _, k := range findings.NotClaimed {
		if k.Property == prop || k.Property == "*" {
			notClaimed[k.Obligation] = k.Reason
		}
	}
	var notClaimedSeen []string
	seen := map[string]bool{}
	var reports []oblReport
	var discharged, claimed, violations int
	perSolver := map[string]int{}
	solverSecs := 0.0
	var knownPrinted []string
	var violLines []string
	var coverUndecided []string
	for _, o := range all {
		seen[o.ID] = true
		ok := false
		if o.Cover {
			// a vacuity guard passes when the path is shown reachable; it fails
			// when it is shown contradictory; undecided guards are reported in
			// the evidence (cover_undecided) and do not fail the check
			ok = o.Status != "unsat"
			if o.Status != "sat" {
				coverUndecided = append(coverUndecided, o.ID)
			}
		} else {
			ok = o.Status == "unsat" || o.Status == "static"
		}
		reports = append(reports, oblReport{o.ID, o.Kind, o.Status, o.Solver, o.Time, o.SMTLen, o.Pos})
		solverSecs += o.Time
		if o.Solver != "" {
			perSolver[o.Solver]++
		}
		if _, nc := notClaimed[o.ID]; nc {
			// an obligation that does not discharge on the unchanged tree for
			// reasons of solver reach; it is generated but never counted
			notClaimedSeen = append(notClaimedSeen, o.ID+" ["+o.Status+"]")
			continue
		}
		if kf, isKnown := known[o.ID]; isKnown {
			if !ok {
				line := fmt.Sprintf("KNOWN-FINDING: property=%s %s: %s", prop, o.ID, kf.What)
				fmt.Println(line)
				knownPrinted = append(knownPrinted, o.ID)
			}
			continue
		}
		claimed++
		if ok {
			discharged++
			continue
		}
		violations++
		why := "obligation not discharged: solver answered " + o.Status
		if o.Cover && o.Status == "unsat" {
			why = "vacuity guard failed: the preconditions/paths of this function are contradictory"
		}
		rp, replayed := e.replayObligation(prop, o, why)
		suffix := ""
		if !replayed {
			suffix = " no-failing-input-found"
		}
		violLines = append(violLines, fmt.Sprintf("VIOLATION property=%s replay=%s%s", prop, rp, suffix))
		fmt.Printf("FAILED %s [%s] %s\n", o.ID, o.Status, o.Pos)
	}
	// locked obligations that disappeared
	if !*relock {
		var missing []string
		// a locked obligation counts as still generated when an obligation of the
		// same group exists: return-path indices, conjunct indices, loop-exit
		// variants and call ordinals shift under harmless edits
		seenBase := map[string]bool{}
		for id := range seen {
			seenBase[baseID(id)] = true
		}
		for id := range lock[prop] {
			if !seen[id] && !seenBase[baseID(id)] && !isOrdinalKind(id) {
				missing = append(missing, id)
			}
		}
		sort.Strings(missing)
		for _, id := range missing {
			if _, isKnown := known[id]; isKnown {
				continue
			}
			violations++
			rp := writeReplay(prop, id, map[string]any{"obligation": id, "reason": "this obligation was discharged on the unchanged tree and can no longer be generated (function or contract target changed, or the function left the supported subset)", "outside_subset": outside})
			violLines = append(violLines, fmt.Sprintf("VIOLATION property=%s replay=%s no-failing-input-found", prop, rp))
			fmt.Printf("MISSING %s\n", id)
		}
	}
	for _, l := range violLines {
		fmt.Println(l)
	}
	if *relock {
		m := map[string]string{}
		for _, o := range all {
			if _, isKnown := known[o.ID]; isKnown {
				continue
			}
			if _, nc := notClaimed[o.ID]; nc {
				continue
			}
			m[o.ID] = o.Status
		}
		lock[prop] = m
		writeJSON(filepath.Join(verifDir, "obligations.lock"), lock)
	}
	var tb []string
	for mname := range models {
		tb = append(tb, "model:"+mname)
	}
	for k := range notes {
		if strings.HasPrefix(k, "axiom:") || strings.HasPrefix(k, "model:") || strings.HasPrefix(k, "trusted") || strings.HasPrefix(k, "assume") || strings.HasPrefix(k, "append ") {
			tb = append(tb, k)
		}
	}
	sort.Strings(tb)
	cov := map[string]any{
		"functions_under_contract": funcs,
		"per_solver":               perSolver,
		"solver_seconds":           round2(solverSecs),
		"vc_generation_seconds":    round2(execS),
		"unmodelled_calls":         unmod,
		"outside_subset":           outside,
		"known_findings":           knownPrinted,
		"cover_undecided":          coverUndecided,
		"not_claimed":              notClaimedSeen,
		"engine_notes":             notes,
	}
	if tier == "thorough" && !*dry {
		cov["must_fail_selftest"] = selfTest(prop)
	}
	writeEvidence(evPath, prop, tier, seed, time.Since(t0).Seconds(), reports, cov, tb, violations, nil, &[2]int{claimed, discharged})
	fmt.Printf("property %s (%s): %d obligations, %d discharged, %d known findings, %d violations, %.1fs\n", prop, tier, claimed, discharged, len(knownPrinted), violations, time.Since(t0).Seconds())
	if violations > 0 {
		return 1
	}
	return 0
}

var baseIDRe = regexp.MustCompile(`@ret\d+|\.\d+( |$)| ~\d+|#\d+`)

func baseID(id string) string {
	return baseIDRe.ReplaceAllStringFunc(id, func(m string) string {
		if strings.HasSuffix(m, " ") {
			return " "
		}
		return ""
	})
}

func isOrdinalKind(id string) bool {
	return strings.Contains(id, "/frame:")
}

func round2(x float64) float64 { return float64(int(x*100+0.5)) / 100 }

func firstLines(s string, n int) string {
	ls := strings.Split(s, "\n")
	if len(ls) > n {
		ls = ls[:n]
	}
	return strings.Join(ls, " | ")
}

func writeReplay(prop, id string, payload map[string]any) string {
	dir := filepath.Join(verifDir, "replays")
	os.MkdirAll(dir, 0o755)
	name := sanitize(prop + "_" + id)
	if len(name) > 150 {
		name = name[:150]
	}
	p := filepath.Join(dir, name+".json")
	payload["property"] = prop
	writeJSON(p, payload)
	return p
}

func writeEvidence(path, prop, tier string, seed int, wall float64, reports []oblReport, cov map[string]any, trusted []string, violations int, extraAssump []string, counts *[2]int) {
	if cov == nil {
		cov = map[string]any{}
	}
	nObl, nDis := 0, 0
	if counts != nil {
		nObl, nDis = counts[0], counts[1]
	}
	cov["obligations"] = nObl
	cov["discharged"] = nDis
	cov["checker_cmd"] = fmt.Sprintf("/verif/bin/gvc check %s %s  (obligations: one SMT-LIB file each, raced on z3 5.1.0 (z3-new), cvc5 1.0 --strings-exp, z3 4.8.12)", prop, tier)
	if trusted == nil {
		trusted = []string{}
	}
	cov["trusted_base"] = trusted
	var samples []any
	for i, r := range reports {
		if i%(len(reports)/6+1) == 0 {
			samples = append(samples, r)
		}
	}
	if samples == nil {
		samples = []any{}
	}
	cov["samples"] = samples
	cov["all_obligations"] = reports
	cov["not_decided"] = notDecided[prop]
	assumptions := append([]string{}, globalAssumptions...)
	assumptions = append(assumptions, propAssumptions[prop]...)
	assumptions = append(assumptions, extraAssump...)
	ev := map[string]any{
		"property_id": prop,
		"tier":        tier,
		"seed":        seed,
		"level":       "proof",
		"coverage":    cov,
		"assumptions": assumptions,
		"wall_s":      round2(wall),
		"violations":  violations,
	}
	writeJSON(path, ev)
}

var globalAssumptions = []string{
	"gvc's own translation of go/ssa to verification conditions is trusted (largest trusted component); integers are mathematical (no overflow; unsigned narrowing conversions are exact mod 2^w)",
	"[]byte values are modelled as immutable byte strings (a store into a byte slice puts a function outside the subset)",
	"library functions behave as their models in /verif/gvc/models*.go state (listed under coverage.trusted_base)",
	"pointers to scalars held in the heap or passed to a function under contract point to standalone variables unless their origin is syntactically visible",
	"append never writes into memory that another live slice can observe (spare-capacity writes are invisible)",
	"interface-typed inputs (the destination writer, callbacks) have dynamic types outside the program",
	"the file system does not change during one call (fsContent, fsMode, fsMTime, fsExists are functions of the path)",
}

var propAssumptions = map[string][]string{}
var notDecided = map[string][]string{}

// replayObligation writes the replay file of a failed obligation and, where a
// model is available and the function's inputs can be materialised, runs the
// real code on it.  It reports whether a failing input was confirmed.
var dryRun bool

func (e *Engine) replayObligation(prop string, o *Obligation, why string) (string, bool) {
	if dryRun {
		return "(self-test run: no replay)", false
	}
	payload := map[string]any{
		"obligation":    o.ID,
		"kind":          o.Kind,
		"function":      o.Fn,
		"at":            o.Pos,
		"reason":        why,
		"solver":        o.Solver,
		"solver_status": o.Status,
		"solver_output": truncate(o.Model, 20000),
		"all_solvers":   o.allSolvers,
	}
	confirmed := false
	if !o.Cover && o.clause != nil && o.clause.Label == "loud" {
		if out, ok, test := e.replayLoud(o); test != "" {
			payload["replay_test"] = test
			payload["replay_output"] = truncate(out, 8000)
			payload["replay_confirmed"] = ok
			confirmed = ok
		}
	} else if !o.Cover && o.clause != nil && o.clause.Label == "signer-failure-is-typed" && strings.HasSuffix(o.contract.Key, ".Package") {
		if out, ok, test := e.replaySignerTyped(o); test != "" {
			payload["replay_test"] = test
			payload["replay_output"] = truncate(out, 8000)
			payload["replay_confirmed"] = ok
			confirmed = ok
		}
	} else if !o.Cover && o.clause != nil && o.clause.Label == "signer-error-is-wrapped" {
		if out, ok, test := e.replaySignerError(o); test != "" {
			payload["replay_test"] = test
			payload["replay_output"] = truncate(out, 8000)
			payload["replay_confirmed"] = ok
			confirmed = ok
		}
	} else if !o.Cover && o.Kind == "store" && (strings.Contains(o.ID, "store:S3") || strings.Contains(o.ID, "store:S4")) {
		if out, ok, test := e.replayPlan(o); test != "" {
			payload["replay_test"] = test
			payload["replay_output"] = truncate(out, 8000)
			payload["replay_confirmed"] = ok
			confirmed = ok
		}
	} else if (o.Status == "sat" || o.candidateQF) && !o.Cover {
		if out, ok, test := e.tryReplay(o); test != "" {
			payload["replay_test"] = test
			payload["replay_output"] = truncate(out, 8000)
			payload["replay_confirmed"] = ok
			confirmed = ok
		}
	}
	rp := writeReplay(prop, o.ID, payload)
	return rp, confirmed
}

func truncate(s string, n int) string {
	if len(s) > n {
		return s[:n] + "\n...[truncated]"
	}
	return s
}

// runCmd runs a command with a timeout and returns combined output.
func runCmd(dir string, timeout time.Duration, env []string, name string, args ...string) (string, error) {
	cmd := exec.Command(name, args...)
	cmd.Dir = dir
	cmd.Env = append(os.Environ(), env...)
	done := make(chan struct{})
	var out []byte
	var err error
	go func() {
		out, err = cmd.CombinedOutput()
		close(done)
	}()
	select {
	case <-done:
	case <-time.After(timeout):
		if cmd.Process != nil {
			cmd.Process.Kill()
		}
		<-done
		return string(out), fmt.Errorf("timeout")
	}
	return string(out), err
}

type lemmaFile struct {
	ID   string
	File string
	What string
}

var lemmaFiles = map[string][]lemmaFile{
	"C14": {
		{"lemma:dpkg-prerelease-sorts-first", "/verif/lemmas/Dpkg.lean", "dpkg verrevcmp: V~pre<tail> < V<tail> for hyphen-free V and tail starting with + or - (or empty)"},
		{"lemma:rpm-prerelease-sorts-first", "/verif/lemmas/Rpm.lean", "rpmvercmp: P~x < P<y> when y is empty or starts with a separator not followed by ~"},
	},
}

// runLeanLemma checks a Lean file: it must elaborate without error or sorry and
// its theorems may depend only on propext and Quot.sound.
func runLeanLemma(lm lemmaFile) *Obligation {
	o := &Obligation{ID: lm.ID, Kind: "lemma", Pos: lm.File, Goal: True, PC: True}
	t0 := time.Now()
	out, err := runCmd("/verif/lemmas", 240*time.Second, nil, "lean", lm.File)
	o.Time = time.Since(t0).Seconds()
	o.Solver = "lean4"
	o.SMTLen = len(out)
	ok := err == nil && !strings.Contains(out, "sorry") && !strings.Contains(out, "error")
	n := 0
	for _, l := range strings.Split(out, "\n") {
		if i := strings.Index(l, "depends on axioms:"); i >= 0 {
			n++
			ax := strings.Trim(strings.TrimSpace(l[i+len("depends on axioms:"):]), "[]")
			for _, a := range strings.Split(ax, ",") {
				a = strings.TrimSpace(a)
				if a != "propext" && a != "Quot.sound" && a != "" {
					ok = false
				}
			}
		}
	}
	if n == 0 {
		ok = false
	}
	if ok {
		o.Status = "unsat"
	} else {
		o.Status = "error"
		o.Model = out
	}
	return o
}

// allPropsDeep: the properties of a contract plus those of the clauses that
// become obligations while it is verified: invariants, call-site assertions
// and store assertions of the functions inlined into it (transitively), and
// preconditions of the functions it calls by contract.
func (e *Engine) allPropsDeep(c *Contract) []string {
	set := map[string]bool{}
	for _, p := range c.allProps() {
		set[p] = true
	}
	seen := map[*ssa.Function]bool{}
	var visit func(fn *ssa.Function, depth int)
	visit = func(fn *ssa.Function, depth int) {
		if fn == nil || seen[fn] || depth > 12 || fn.Blocks == nil {
			return
		}
		seen[fn] = true
		for _, b := range fn.Blocks {
			for _, ins := range b.Instrs {
				var callee *ssa.Function
				switch x := ins.(type) {
				case ssa.CallInstruction:
					callee = x.Common().StaticCallee()
					for _, a := range x.Common().Args {
						if mc, ok := a.(*ssa.MakeClosure); ok {
							visit(mc.Fn.(*ssa.Function), depth+1)
						}
					}
				case *ssa.MakeClosure:
					visit(x.Fn.(*ssa.Function), depth+1)
				}
				if callee == nil {
					continue
				}
				ct := e.contracts[fnName(callee)]
				if ct != nil {
					for _, cl := range ct.Requires {
						for _, p := range cl.Props {
							set[p] = true
						}
					}
					for _, cl := range ct.Expects {
						for _, p := range cl.Props {
							set[p] = true
						}
					}
				}
				if ct != nil && !ct.Inline {
					continue
				}
				if ct != nil {
					for _, l := range ct.Loops {
						for _, cl := range l.Invs {
							for _, p := range cl.Props {
								set[p] = true
							}
						}
					}
					for _, cl := range ct.OnStore {
						for _, p := range cl.Props {
							set[p] = true
						}
					}
				}
				if e.isOurs(callee) || e.inlineFns[fnName(callee)] {
					visit(callee, depth+1)
				}
			}
		}
	}
	visit(e.funcsByName[c.Key], 0)
	return sortedKeys(set)
}

// selfTest (thorough tier): every seeded change of /verif/seeded that targets
// this property is applied to a scratch copy of the tree under verification
// and the quick check is run on that copy; the change must be reported.  The
// result goes into the evidence; it never changes the verdict about /repo.
func selfTest(prop string) []map[string]any {
	var out []map[string]any
	dirs, _ := filepath.Glob(filepath.Join(verifDir, "seeded", "*"))
	sort.Strings(dirs)
	for _, d := range dirs {
		var meta struct {
			Property  string   `json:"property"`
			AlsoCheck []string `json:"also_check"`
			Status    string   `json:"status"`
		}
		readJSON(filepath.Join(d, "meta.json"), &meta)
		if meta.Property != prop && !hasProp(meta.AlsoCheck, prop) {
			continue
		}
		res := map[string]any{"seed": filepath.Base(d)}
		out = append(out, res)
		scratch, err := os.MkdirTemp("", "gvc-selftest-")
		if err != nil {
			res["result"] = "skipped: " + err.Error()
			continue
		}
		func() {
			defer os.RemoveAll(scratch)
			if o, err := exec.Command("rsync", "-a", "--exclude", ".git", repoDir+"/", scratch+"/").CombinedOutput(); err != nil {
				res["result"] = "skipped: copy failed: " + firstLines(string(o), 2)
				return
			}
			ap := exec.Command("git", "apply", filepath.Join(d, "patch.diff"))
			ap.Dir = scratch
			if o, err := ap.CombinedOutput(); err != nil {
				res["result"] = "not applicable: the change no longer applies (" + firstLines(string(o), 1) + ")"
				if meta.Status != "" {
					res["note"] = meta.Status
				}
				return
			}
			cmd := exec.Command(os.Args[0], "check", "-dry", prop, "quick")
			cmd.Env = append(os.Environ(), "GVC_REPO="+scratch, "VERIF_TIER=quick")
			o, _ := cmd.CombinedOutput()
			var failed []string
			for _, l := range strings.Split(string(o), "\n") {
				if strings.HasPrefix(l, "FAILED ") || strings.HasPrefix(l, "MISSING ") || strings.HasPrefix(l, "CHECK-BROKEN") {
					failed = append(failed, l)
				}
			}
			if len(failed) > 0 {
				res["result"] = "reported"
				if len(failed) > 4 {
					failed = failed[:4]
				}
				res["by"] = failed
			} else {
				res["result"] = "MISSED"
				fmt.Printf("SELFTEST-MISS property=%s seed=%s: the seeded change was not reported\n", prop, filepath.Base(d))
			}
		}()
	}
	return out
}
