package main

// Symbolic executor over go/ssa: forward execution with state merging at
// joins (phi -> ite), loops cut by invariants or unrolled when their trip
// count is concrete, calls handled by contract / inlining / library model.

import (
	"fmt"
	"go/constant"
	"go/token"
	"go/types"
	"math/big"
	"os"
	"sort"
	"strings"

	"golang.org/x/tools/go/ssa"
)

var traceOn = os.Getenv("GVC_TRACE") != ""

type closure struct {
	fn       *ssa.Function
	bindings []*Term
}

const closureBase = 7000

type Obligation struct {
	ID     string
	Kind   string
	Props  []string
	PC     *Term
	Goal   *Term
	NAssum int // number of global assumptions visible
	Fn     string
	Pos    string
	// result
	Status       string // unsat sat unknown timeout static
	Solver       string
	Time         float64
	Model        string
	SMTLen       int
	Cover        bool // must be satisfiable (vacuity guard)
	smtFile      string
	allSolvers   map[string]string
	contract     *Contract
	clause       *Clause
	script       string
	scriptQF     string
	scriptAbs    string
	scriptFull   string
	asserts      []*Term
	assertsFull  []*Term
	assertsAbs   []*Term
	pieces       [][]*Term
	assertsQF    []*Term
	mterms       []*Term
	knownFinding bool
	inputs       []*inputNode
	candidateQF  bool
}

type ModelFn func(c *CallCtx) *Term

type Engine struct {
	prog        *ssa.Program
	fset        *token.FileSet
	tr          *TypeReg
	compSorts   map[string]*Sort
	initComps   map[string]*Term
	heapBound   map[string]*Term
	loadedFacts map[int]bool
	assumes     []*Term
	assumePCs   []*Term // path condition under which assumes[i] was made
	discovery   []*discoveryLevel
	dirty       map[string]bool
	quiet       int
	obls        []*Obligation
	oblIDs      map[string]int
	notes       map[string]int
	closures    []*closure
	funcIDs     map[*ssa.Function]int
	models      map[string]ModelFn
	contracts   map[string]*Contract
	inlineFns   map[string]bool
	globalIDs   map[*ssa.Global]int
	funcsByName map[string]*ssa.Function
	topFn       *ssa.Function
	topContract *Contract
	alloc0      *Term
	modLocs     []modLoc // modifies set of the function under verification
	frameProps  []string
	frameOn     bool
	depth       int
	unmodelled  map[string]int
	maxUnroll   int
	ordinals    map[*ssa.Function]map[ssa.Instruction]int
	nilPkgFuncs map[string]bool
	axioms      []*Term
	axiomSeen   map[int]bool
	bitDefs     map[int]bool
	modCollect  *[]modTarget
	replacers   map[int][]*Term
	lists       map[int][]*Term
	pairs       map[int][2]*Term
	inInit      bool
	inputLow    *Term
	usedModels  map[string]bool
	debug       bool
	pureSeen    map[int]bool
	pureConst   map[int]*Term
	pureDepth   int
	invokeDepth int
	invokeTrace []string
	topRets     []retRec
	tmplFuncs   map[int]*Term
	callHist    map[string]*Term
	callCount   map[string]int
	caseSuffix  string
	inputs      []*inputNode
	byteRefs    map[int]bool
	files       []*ContractFile
	stubs       map[string]string
	tmplPrecise func(c *CallCtx, text, data *Term) *Term
	allocParent map[int]*Term // fresh allocation-counter symbol -> the counter it is >= to
}

type modLoc struct {
	loc  *Term  // exact location (nil if whole-object)
	obj  *Term  // object id for whole-object entries
	comp string // optional component restriction
}

func newEngine(prog *ssa.Program, fset *token.FileSet) *Engine {
	e := &Engine{
		prog: prog, fset: fset, tr: newTypeReg(),
		compSorts: map[string]*Sort{}, initComps: map[string]*Term{}, heapBound: map[string]*Term{},
		loadedFacts: map[int]bool{}, notes: map[string]int{}, funcIDs: map[*ssa.Function]int{},
		models: map[string]ModelFn{}, contracts: map[string]*Contract{}, inlineFns: map[string]bool{},
		globalIDs: map[*ssa.Global]int{}, funcsByName: map[string]*ssa.Function{}, oblIDs: map[string]int{},
		unmodelled: map[string]int{}, maxUnroll: 300, axiomSeen: map[int]bool{}, replacers: map[int][]*Term{}, lists: map[int][]*Term{}, usedModels: map[string]bool{}, ordinals: map[*ssa.Function]map[ssa.Instruction]int{},
	}
	e.declComp(allocComp, IntS)
	e.tmplFuncs = map[int]*Term{}
	e.callHist = map[string]*Term{}
	e.callCount = map[string]int{}
	e.pureConst = map[int]*Term{}
	// ghost globals are declared up front: a modifies clause naming one must
	// havoc it even when nothing has read it yet
	for n, srt := range map[string]*Sort{"signedBytes": StringS, "signerErr": IfaceS, "compressedInput": StringS,
		"tarManifestAtClose": StringS, "tarStreamAtClose": StringS, "tarPadAtClose": IntS} {
		e.declComp("G:"+n, srt)
	}
	e.byteRefs = map[int]bool{}
	registerModels(e)
	for _, f := range extraModels {
		f(e)
	}
	return e
}

func (e *Engine) note(s string) { e.notes[s]++ }

func (e *Engine) assumeGlobal(t *Term) {
	if t.IsTrue() {
		return
	}
	e.assumes = append(e.assumes, t)
	e.assumePCs = append(e.assumePCs, True)
}

// assume records a fact that holds on the paths satisfying pc.
func (e *Engine) assume(pc, t *Term) {
	g := Implies(pc, t)
	if g.IsTrue() {
		return
	}
	e.assumes = append(e.assumes, g)
	e.assumePCs = append(e.assumePCs, pc)
}

// axiom adds a permanent, path-independent fact (never rolled back).
func (e *Engine) axiom(t *Term) {
	if t.IsTrue() || e.axiomSeen[t.id] {
		return
	}
	if t.hasBound {
		// a fact about a term under a quantifier: close it universally
		seen := map[int]bool{}
		var bvs []*Term
		var walk func(x *Term)
		walk = func(x *Term) {
			if seen[x.id] || !x.hasBound {
				return
			}
			seen[x.id] = true
			if x.Op == "bvar" {
				bvs = append(bvs, x)
			}
			for _, a := range x.Args {
				walk(a)
			}
		}
		walk(t)
		e.axiomSeen[t.id] = true
		e.axioms = append(e.axioms, Forall(bvs, t))
		return
	}
	e.axiomSeen[t.id] = true
	e.axioms = append(e.axioms, t)
}

type Frame struct {
	fn        *ssa.Function
	path      string
	defers    []deferRec
	rets      []retRec
	caller    *Frame
	owner     *Frame // clause frames: the frame of the function whose contract is evaluated
	oldSt     *State // pre-state for old(...) in clause functions
	oldIns    map[ssa.Instruction]bool
	allOld    bool
	loops     []*loopInfo
	loopOf    map[*ssa.BasicBlock]*loopInfo // header -> loop
	rpo       []*ssa.BasicBlock
	rpoIdx    map[*ssa.BasicBlock]int
	entrySt   *State
	clause    bool // executing a contract clause / spec function: no obligations
	freshBase *Term
	curSt     *State
	iter      string
}

type deferRec struct {
	guard *Term
	call  *ssa.CallCommon
	args  []*Term
	fnval *Term
	instr *ssa.Defer
	st    *State // for values
}

type retRec struct {
	pc  *Term
	st  *State
	val *Term
}

type loopInfo struct {
	header  *ssa.BasicBlock
	blocks  map[*ssa.BasicBlock]bool
	ordinal int
	rpo     []*ssa.BasicBlock
}

// ---- CFG analysis ----

func (e *Engine) analyze(fr *Frame) {
	fn := fr.fn
	seen := map[*ssa.BasicBlock]bool{}
	var post []*ssa.BasicBlock
	var dfs func(b *ssa.BasicBlock)
	dfs = func(b *ssa.BasicBlock) {
		seen[b] = true
		for _, s := range b.Succs {
			if !seen[s] {
				dfs(s)
			}
		}
		post = append(post, b)
	}
	dfs(fn.Blocks[0])
	for i := len(post) - 1; i >= 0; i-- {
		fr.rpo = append(fr.rpo, post[i])
	}
	fr.rpoIdx = map[*ssa.BasicBlock]int{}
	for i, b := range fr.rpo {
		fr.rpoIdx[b] = i
	}
	fr.loopOf = map[*ssa.BasicBlock]*loopInfo{}
	for _, b := range fr.rpo {
		for _, s := range b.Succs {
			if s.Dominates(b) { // back edge b -> s
				li := fr.loopOf[s]
				if li == nil {
					li = &loopInfo{header: s, blocks: map[*ssa.BasicBlock]bool{s: true}}
					fr.loopOf[s] = li
					fr.loops = append(fr.loops, li)
				}
				// natural loop: nodes reaching b without passing s
				var stack []*ssa.BasicBlock
				if !li.blocks[b] {
					li.blocks[b] = true
					stack = append(stack, b)
				}
				for len(stack) > 0 {
					x := stack[len(stack)-1]
					stack = stack[:len(stack)-1]
					for _, p := range x.Preds {
						if !li.blocks[p] && seen[p] {
							li.blocks[p] = true
							stack = append(stack, p)
						}
					}
				}
			}
		}
	}
	sort.Slice(fr.loops, func(i, j int) bool { return fr.loops[i].header.Index < fr.loops[j].header.Index })
	for i, li := range fr.loops {
		li.ordinal = i
		for _, b := range fr.rpo {
			if li.blocks[b] {
				li.rpo = append(li.rpo, b)
			}
		}
	}
}

func (e *Engine) ordinal(fn *ssa.Function, in ssa.Instruction) int {
	m, ok := e.ordinals[fn]
	if !ok {
		m = map[ssa.Instruction]int{}
		cnt := map[string]int{}
		for _, b := range fn.Blocks {
			for _, i := range b.Instrs {
				k := fmt.Sprintf("%T", i)
				// calls are numbered per callee, so that adding or removing an
				// unrelated call does not renumber the others
				var cc *ssa.CallCommon
				switch x := i.(type) {
				case *ssa.Call:
					cc = &x.Call
				case *ssa.Defer:
					cc = &x.Call
				}
				if cc != nil {
					if cc.IsInvoke() {
						k += ":" + cc.Method.Name()
					} else if f, ok := cc.Value.(*ssa.Function); ok {
						k += ":" + f.String()
					} else if b, ok := cc.Value.(*ssa.Builtin); ok {
						k += ":" + b.Name()
					}
				}
				m[i] = cnt[k]
				cnt[k]++
			}
		}
		e.ordinals[fn] = m
	}
	return m[in]
}

// ---- function execution ----

func (e *Engine) execFunction(fn *ssa.Function, args []*Term, bindings []*Term, st *State, pc *Term, caller *Frame, path string, oldSt *State, allOld bool) (*Term, *State, *Term) {
	if fn.Blocks == nil {
		panic(outsideSubset("no body: " + fn.String()))
	}
	if e.depth > 40 {
		panic(outsideSubset("inline depth exceeded at " + fn.String()))
	}
	e.depth++
	defer func() { e.depth-- }()
	if traceOn {
		fmt.Fprintf(os.Stderr, "%*senter %s\n", e.depth, "", fn.String())
	}
	fr := &Frame{fn: fn, caller: caller, path: path, oldSt: oldSt, allOld: allOld}
	if caller != nil {
		fr.clause = caller.clause
	}
	e.analyze(fr)
	vals := map[ssa.Value]*Term{}
	if len(args) != len(fn.Params) {
		panic(fmt.Sprintf("arity mismatch calling %s: %d args, %d params", fn, len(args), len(fn.Params)))
	}
	for i, p := range fn.Params {
		vals[p] = args[i]
	}
	for i, fv := range fn.FreeVars {
		vals[fv] = bindings[i]
	}
	s0 := st.withVals(vals)
	fr.entrySt = s0.clone()
	if oldSt != nil {
		fr.oldIns = e.oldSlice(fn)
	}
	if ct := e.contracts[fnName(fn)]; ct != nil && len(ct.Assumes) > 0 && !fr.clause {
		for _, cl := range ct.Assumes {
			g := e.evalClause(fr, cl, args, nil, s0, s0, pc)
			e.assume(pc, g)
			e.note("assumed in contract of " + shortFn(fn) + ": " + cl.Label + ": " + cl.Expr)
		}
	}
	if ct := e.contracts[fnName(fn)]; ct != nil && len(ct.Expects) > 0 && !fr.clause {
		for _, cl := range ct.Expects {
			g := e.evalClause(fr, cl, args, nil, s0, s0, pc)
			if caller == nil {
				e.assume(pc, g)
			} else {
				e.addObl(fr, "requires", shortFn(fn)+"."+cl.Label, cl.Props, pc, g, fmt.Sprintf("%s:%d", strings.TrimPrefix(ct.File, "/repo/"), cl.Line))
			}
		}
	}
	exits, _ := e.runRegion(fr, fr.rpo, map[*ssa.BasicBlock][]edge{fn.Blocks[0]: {{pc: pc, st: s0}}}, nil)
	_ = exits
	if caller == nil && !fr.clause {
		e.topRets = fr.rets
	}
	if len(fr.rets) == 0 {
		return nil, st, False
	}
	var edges []edge
	var pcs []*Term
	for _, r := range fr.rets {
		edges = append(edges, edge{pc: r.pc, st: r.st})
		pcs = append(pcs, r.pc)
	}
	out := e.mergeStates(edges)
	rel := relativize(edges)
	var res *Term
	for i := len(fr.rets) - 1; i >= 0; i-- {
		v := fr.rets[i].val
		if v == nil {
			continue
		}
		if res == nil {
			res = v
		} else {
			res = Ite(rel[i].pc, v, res)
		}
	}
	out.vals = st.vals
	return res, out, Or(pcs...)
}

// runRegion executes `blocks` (in RPO) with the given incoming edges.  Edges
// that leave the region are returned in exits; edges to `header` in backs.
func (e *Engine) runRegion(fr *Frame, blocks []*ssa.BasicBlock, entries map[*ssa.BasicBlock][]edge, header *ssa.BasicBlock) (map[*ssa.BasicBlock][]edge, []edge) {
	in := map[*ssa.BasicBlock][]edge{}
	for k, v := range entries {
		in[k] = append([]edge(nil), v...)
	}
	inRegion := map[*ssa.BasicBlock]bool{}
	for _, b := range blocks {
		inRegion[b] = true
	}
	exits := map[*ssa.BasicBlock][]edge{}
	var backs []edge
	done := map[*ssa.BasicBlock]bool{}
	route := func(target *ssa.BasicBlock, ed edge, fromInside bool) {
		if ed.pc.IsFalse() {
			return
		}
		switch {
		case target == header && fromInside:
			backs = append(backs, ed)
		case inRegion[target] && !done[target]:
			in[target] = append(in[target], ed)
		default:
			exits[target] = append(exits[target], ed)
		}
	}
	first := true
	for _, b := range blocks {
		if done[b] {
			continue
		}
		isEntryHeader := b == header && first
		first = false
		if li := fr.loopOf[b]; li != nil && !isEntryHeader {
			if len(in[b]) == 0 {
				for x := range li.blocks {
					done[x] = true
				}
				continue
			}
			for x := range li.blocks {
				done[x] = true
			}
			lx := e.runLoop(fr, li, in[b])
			var targets []*ssa.BasicBlock
			for t := range lx {
				targets = append(targets, t)
			}
			sort.Slice(targets, func(i, j int) bool { return targets[i].Index < targets[j].Index })
			for _, t := range targets {
				for _, ed := range lx[t] {
					route(t, ed, true)
				}
			}
			continue
		}
		done[b] = true
		edgesIn := in[b]
		if len(edgesIn) == 0 {
			continue
		}
		var pcs []*Term
		for _, ed := range edgesIn {
			pcs = append(pcs, ed.pc)
		}
		pc := Or(pcs...)
		if pc.IsFalse() {
			continue
		}
		st := e.mergeStates(edgesIn)
		edgesIn = relativize(edgesIn)
		// phis
		for _, ins := range b.Instrs {
			phi, ok := ins.(*ssa.Phi)
			if !ok {
				break
			}
			var acc *Term
			for i := len(edgesIn) - 1; i >= 0; i-- {
				ed := edgesIn[i]
				if ed.from == nil {
					// value preset in state (havocked header)
					if v, ok := ed.st.vals[phi]; ok {
						if acc == nil {
							acc = v
						} else {
							acc = Ite(ed.pc, v, acc)
						}
					}
					continue
				}
				idx := -1
				for j, p := range b.Preds {
					if p == ed.from {
						idx = j
						break
					}
				}
				if idx < 0 {
					panic("phi: pred not found")
				}
				v := e.value(fr, ed.st, phi.Edges[idx])
				if acc == nil {
					acc = v
				} else {
					acc = Ite(ed.pc, v, acc)
				}
			}
			st.vals[phi] = acc
		}
		outs := e.execBlock(fr, b, st, pc)
		for _, o := range outs {
			route(o.to, edge{pc: o.pc, st: o.st, from: b}, true)
		}
	}
	return exits, backs
}

type outEdge struct {
	to *ssa.BasicBlock
	pc *Term
	st *State
}

// ---- loops ----

func (e *Engine) runLoop(fr *Frame, li *loopInfo, edgesIn []edge) map[*ssa.BasicBlock][]edge {
	invs := e.loopInvariants(fr.fn, li.ordinal)
	symLimit := 2
	if invs != nil && invs.Unroll > 0 {
		symLimit = invs.Unroll
		invs = nil
	}
	exitsAcc := map[*ssa.BasicBlock][]edge{}
	add := func(m map[*ssa.BasicBlock][]edge) {
		for t, es := range m {
			exitsAcc[t] = append(exitsAcc[t], es...)
		}
	}
	if invs == nil {
		cur := edgesIn
		savedIter := fr.iter
		symbolicIters := 0
		for it := 0; it < e.maxUnroll; it++ {
			fr.iter = fmt.Sprintf("%s~%d", savedIter, it)
			exits, backs := e.runRegion(fr, li.rpo, map[*ssa.BasicBlock][]edge{li.header: cur}, li.header)
			add(exits)
			var live []edge
			for _, b := range backs {
				if !b.pc.IsFalse() {
					live = append(live, b)
				}
			}
			if len(live) == 0 {
				fr.iter = savedIter
				return exitsAcc
			}
			liveExit := false
			for _, es := range exits {
				for _, x := range es {
					if !x.pc.IsFalse() && (x.from == li.header || it >= 16) {
						liveExit = true
					}
				}
			}
			if liveExit {
				symbolicIters++
				if symbolicIters > symLimit {
					break
				}
			}
			cur = live
		}
		panic(outsideSubset(fmt.Sprintf("loop %d of %s needs an invariant (not unrollable; %d symbolic iterations)", li.ordinal, shortFn(fr.fn), symbolicIters)))
	}
	// cut-point
	var pcs []*Term
	for _, ed := range edgesIn {
		pcs = append(pcs, ed.pc)
	}
	pcIn := Or(pcs...)
	stIn := e.mergeStates(edgesIn)
	var phis []*ssa.Phi
	for _, ins := range li.header.Instrs {
		phi, ok := ins.(*ssa.Phi)
		if !ok {
			break
		}
		phis = append(phis, phi)
		var acc *Term
		for i := len(edgesIn) - 1; i >= 0; i-- {
			ed := edgesIn[i]
			idx := -1
			for j, p := range li.header.Preds {
				if p == ed.from {
					idx = j
				}
			}
			if idx < 0 {
				panic("loop phi: pred not found")
			}
			v := e.value(fr, ed.st, phi.Edges[idx])
			if acc == nil {
				acc = v
			} else {
				acc = Ite(ed.pc, v, acc)
			}
		}
		stIn.vals[phi] = acc
	}
	e.checkInvariants(fr, li, invs, stIn, pcIn, "inv-init")

	// discovery of the components written by the body
	dirty := map[string]bool{}
	oldWrites := map[string]bool{}
	for round := 0; round < 4; round++ {
		saveAss := len(e.assumes)
		saveDirty := e.dirty
		e.dirty = map[string]bool{}
		e.quiet++
		stD := e.havocFor(fr, stIn, phis, dirty, li, nil)
		nDef := len(fr.defers)
		nRet := len(fr.rets)
		lvl := &discoveryLevel{base: e.comp(stD, allocComp), oldWrites: oldWrites}
		e.discovery = append(e.discovery, lvl)
		func() {
			defer func() {
				e.discovery = e.discovery[:len(e.discovery)-1]
				e.quiet--
				e.assumes = e.assumes[:saveAss]
				e.assumePCs = e.assumePCs[:saveAss]
				fr.defers = fr.defers[:nDef]
				fr.rets = fr.rets[:nRet]
			}()
			e.runRegion(fr, li.rpo, map[*ssa.BasicBlock][]edge{li.header: {{pc: pcIn, st: stD}}}, li.header)
		}()
		grew := false
		for k := range e.dirty {
			if !dirty[k] {
				dirty[k] = true
				grew = true
			}
			if saveDirty != nil {
				saveDirty[k] = true
			}
		}
		e.dirty = saveDirty
		if !grew {
			break
		}
	}
	stH := e.havocFor(fr, stIn, phis, dirty, li, oldWrites)
	e.assumeInvariants(fr, li, invs, stH, pcIn)
	nDef := len(fr.defers)
	exits, backs := e.runRegion(fr, li.rpo, map[*ssa.BasicBlock][]edge{li.header: {{pc: pcIn, st: stH}}}, li.header)
	// a range loop over a slice leaves exactly when its index reaches the
	// length (the length is read once, the index grows by one from -1)
	for _, phi := range phis {
		if phi.Comment != "rangeindex" {
			continue
		}
		f := stH.vals[phi]
		next := Add(f, IntT(1))
		for _, exs := range exits {
			for _, ex := range exs {
				for _, cj := range conj(ex.pc) {
					if cj.Op == "not" && cj.Args[0].Op == "<" && cj.Args[0].Args[0] == next {
						L := cj.Args[0].Args[1]
						e.assume(ex.pc, Eq(next, L))
						// the invariants hold at this exit with the index written as
						// length-1: restated so that they mention the length itself
						if invs != nil && !fr.clause {
							sx := ex.st.clone()
							sx.vals[phi] = Sub(L, IntT(1))
							e.assumeInvariants(fr, li, invs, sx, ex.pc)
						}
					}
				}
			}
		}
	}
	if len(fr.defers) > nDef {
		for _, d := range fr.defers[nDef:] {
			if !e.deferHarmless(d) {
				panic(outsideSubset("defer with effects inside an invariant-cut loop in " + shortFn(fr.fn)))
			}
		}
		fr.defers = fr.defers[:nDef]
	}
	for _, b := range backs {
		sb := b.st.clone()
		for _, phi := range phis {
			idx := -1
			for j, p := range li.header.Preds {
				if p == b.from {
					idx = j
				}
			}
			sb.vals[phi] = e.value(fr, b.st, phi.Edges[idx])
		}
		e.checkInvariants(fr, li, invs, sb, b.pc, "inv-step")
	}
	// vacuity guard: some iteration of the body can complete under the
	// invariants (a contradictory precondition or invariant would make every
	// obligation of the body trivially true)
	if !fr.clause && e.quiet == 0 && len(backs) > 0 && invs != nil && len(invs.Invs) > 0 && strings.Count(fr.path, ">") <= 1 {
		var pcs []*Term
		for _, b := range backs {
			pcs = append(pcs, b.pc)
		}
		e.addCoverIn(fr, fmt.Sprintf("%s.loop%d-iteration", shortFn(fr.fn), li.ordinal), Or(pcs...))
	}
	add(exits)
	return exitsAcc
}

func (e *Engine) havocFor(fr *Frame, stIn *State, phis []*ssa.Phi, dirty map[string]bool, li *loopInfo, oldWrites map[string]bool) *State {
	stH := stIn.clone()
	var ks []string
	for k := range dirty {
		ks = append(ks, k)
	}
	sort.Strings(ks)
	for _, k := range ks {
		if k == allocComp {
			continue
		}
		f := Fresh("hv:"+k, e.compSortOf(k))
		stH.comps[k] = f
	}
	// allocation counter only grows
	if dirty[allocComp] {
		f := Fresh("hv:"+allocComp, IntS)
		e.axiom(Ge(f, e.comp(stIn, allocComp)))
		e.noteAllocGe(f, e.comp(stIn, allocComp))
		stH.comps[allocComp] = f
	}
	for _, k := range ks {
		if k != allocComp {
			e.heapBound[stH.comps[k].SVal] = e.comp(stH, allocComp)
		}
	}
	// components that the body writes only at objects it allocated itself keep
	// their contents for all older objects
	if oldWrites != nil {
		entryAlloc := e.comp(stIn, allocComp)
		for _, k := range ks {
			srt := e.compSortOf(k)
			if k == allocComp || oldWrites[k] || srt.Kind != "array" || srt.Key != LocS || !(strings.HasPrefix(k, "H:") || strings.HasPrefix(k, "E:") || strings.HasPrefix(k, "C:")) {
				continue
			}
			f := stH.comps[k]
			old := e.comp(stIn, k)
			// used syntactically by Select (no quantified frame axiom: it slows
			// every query of the function down)
			frozenBelow[f.id] = frozen{old: old, bound: entryAlloc}
		}
	}
	for _, phi := range phis {
		f := Fresh("phi:"+phi.Comment, e.tr.sortOf(phi.Type()))
		stH.vals[phi] = f
		if phi.Comment == "rangeindex" {
			// the implicit index of a range loop starts at -1 and only grows
			e.axiom(Ge(f, IntT(-1)))
			NoteLowerBound(f, IntT(-1))
		}
		if phi.Comment == "rangeint.iter" {
			e.axiom(Ge(f, IntT(0)))
		}
		e.wellFormedValue(phi.Type(), f, e.comp(stH, allocComp))
	}
	return stH
}

// wellFormedValue assumes that a fresh symbolic value of type t refers to
// allocated objects only.
func (e *Engine) wellFormedValue(t types.Type, v *Term, bound *Term) {
	e.wellFormedValueIf(True, t, v, bound)
}

// wellFormedValueIf: the same, under a guard (used for values read from a
// memory cell that is only known to be meaningful if it was allocated).
func (e *Engine) wellFormedValueIf(g *Term, t types.Type, v *Term, bound *Term) {
	ax := func(f *Term) { e.axiom(Implies(g, f)) }
	note := func(x *Term) {
		if g.IsTrue() {
			NoteUpperBound(x, bound)
		}
	}
	switch e.tr.sortOf(t) {
	case LocS:
		ax(Lt(LocObj(v), bound))
		ax(Ge(LocObj(v), IntT(0)))
		note(LocObj(v))
	case SliceS:
		note(LocObj(SliceBase(v)))
		ax(Lt(LocObj(SliceBase(v)), bound))
		ax(Ge(LocObj(SliceBase(v)), IntT(0)))
		ax(Ge(SliceLen(v), IntT(0)))
		ax(Ge(SliceOff(v), IntT(0)))
		ax(Le(SliceLen(v), SliceCap(v)))
		ax(Implies(Eq(LocObj(SliceBase(v)), IntT(0)), Eq(SliceCap(v), IntT(0)))) // a nil slice is empty
	case IntS:
		if _, isMap := t.Underlying().(*types.Map); isMap {
			ax(Lt(v, bound))
			ax(Ge(v, IntT(0)))
			note(v)
		} else if b, ok := t.Underlying().(*types.Basic); ok && b.Info()&types.IsUnsigned != 0 {
			ax(Ge(v, IntT(0)))
			if w := basicWidth(b); w > 0 && w < 64 {
				ax(Lt(v, pow2(w)))
			}
		}
	case IfaceS:
		val := IfaceVal(v)
		ax(Implies(IsCtor(AnyS, "a_loc", val), And(Lt(LocObj(Sel(AnyS, "a_loc", "aloc", val)), bound), Ge(LocObj(Sel(AnyS, "a_loc", "aloc", val)), IntT(0)))))
	}
}

func pow2(w uint) *Term { return BigT(new(big.Int).Lsh(big.NewInt(1), w)) }

// ---- block execution ----

func (e *Engine) execBlock(fr *Frame, b *ssa.BasicBlock, st *State, pc *Term) []outEdge {
	for _, ins := range b.Instrs {
		if pc.IsFalse() {
			return nil
		}
		switch in := ins.(type) {
		case *ssa.Phi:
			continue
		case *ssa.If:
			c := e.value(fr, st, in.Cond)
			return []outEdge{
				{to: b.Succs[0], pc: And(pc, c), st: st},
				{to: b.Succs[1], pc: And(pc, Not(c)), st: st.clone()},
			}
		case *ssa.Jump:
			return []outEdge{{to: b.Succs[0], pc: pc, st: st}}
		case *ssa.Return:
			var v *Term
			switch len(in.Results) {
			case 0:
			case 1:
				v = e.value(fr, st, in.Results[0])
			default:
				els := make([]*Term, len(in.Results))
				for i, r := range in.Results {
					els[i] = e.value(fr, st, r)
				}
				v = Tuple(els...)
			}
			fr.rets = append(fr.rets, retRec{pc: pc, st: st, val: v})
			return nil
		case *ssa.Panic:
			e.note("panic-path:" + shortFn(fr.fn))
			return nil
		case *ssa.RunDefers:
			pc = e.runDefers(fr, st, pc)
		default:
			pc = e.execInstr(fr, ins, st, pc)
		}
	}
	return nil
}

func (e *Engine) posOf(fr *Frame, ins ssa.Instruction) string {
	p := ins.Pos()
	if !p.IsValid() {
		return shortFn(fr.fn)
	}
	pp := e.fset.Position(p)
	return fmt.Sprintf("%s:%d", strings.TrimPrefix(pp.Filename, "/repo/"), pp.Line)
}

func (e *Engine) value(fr *Frame, st *State, v ssa.Value) *Term {
	switch x := v.(type) {
	case *ssa.Const:
		return e.constant(x)
	case *ssa.Global:
		return e.globalLoc(x)
	case *ssa.Function:
		return e.funcValue(x, nil)
	case *ssa.Builtin:
		panic("builtin as value")
	}
	t, ok := st.vals[v]
	if !ok {
		panic(fmt.Sprintf("no value for %s (%s) in %s", v.Name(), v, fr.fn))
	}
	return t
}

func (e *Engine) funcValue(fn *ssa.Function, bindings []*Term) *Term {
	if len(bindings) == 0 {
		if id, ok := e.funcIDs[fn]; ok {
			return IntT(int64(id))
		}
	}
	e.closures = append(e.closures, &closure{fn: fn, bindings: bindings})
	id := closureBase + len(e.closures) - 1
	if len(bindings) == 0 {
		e.funcIDs[fn] = id
	}
	return IntT(int64(id))
}

func (e *Engine) closureOf(id int64) *closure {
	i := int(id) - closureBase
	if i < 0 || i >= len(e.closures) {
		return nil
	}
	return e.closures[i]
}

const globalBase = 100

func (e *Engine) globalLoc(g *ssa.Global) *Term {
	id, ok := e.globalIDs[g]
	if !ok {
		id = globalBase + len(e.globalIDs)
		e.globalIDs[g] = id
	}
	return MkLoc(IntT(int64(id)), PNil)
}

func (e *Engine) constant(c *ssa.Const) *Term {
	t := c.Type()
	if c.Value == nil {
		return e.tr.zero(t)
	}
	switch e.tr.sortOf(t) {
	case BoolS:
		return BoolT(constant.BoolVal(c.Value))
	case IntS:
		if v, ok := constant.Val(constant.ToInt(c.Value)).(*big.Int); ok {
			return BigT(v)
		}
		if v, ok := constant.Int64Val(constant.ToInt(c.Value)); ok {
			return IntT(v)
		}
		panic(outsideSubset("non-integer constant " + c.String()))
	case StringS:
		return StrT(constant.StringVal(c.Value))
	}
	panic("constant: " + c.String())
}

// ---- instructions ----

func (e *Engine) execInstr(fr *Frame, ins ssa.Instruction, st *State, pc *Term) *Term {
	rd := st // state used for reads
	if fr.oldSt != nil && (fr.allOld || fr.oldIns[ins]) {
		rd = fr.oldSt.withVals(st.vals)
	}
	switch in := ins.(type) {
	case *ssa.DebugRef:
	case *ssa.Alloc:
		l := e.allocLoc(st)
		et := in.Type().(*types.Pointer).Elem()
		e.zeroInit(st, et, l)
		st.vals[in] = l
	case *ssa.FieldAddr:
		p := e.value(fr, st, in.X)
		pt := in.X.Type().Underlying().(*types.Pointer).Elem()
		st.vals[in] = e.fieldAddr(p, pt, in.Field)
	case *ssa.Field:
		x := e.value(fr, st, in.X)
		s := x.Sort
		st.vals[in] = Sel(s, s.DT.Ctors[0].Name, s.DT.Ctors[0].Fields[in.Field].Name, x)
	case *ssa.IndexAddr:
		x := e.value(fr, st, in.X)
		i := e.value(fr, st, in.Index)
		switch xt := in.X.Type().Underlying().(type) {
		case *types.Pointer: // pointer to array
			st.vals[in] = ElemLoc(x, i)
		case *types.Slice:
			_ = xt
			if x.Sort == StringS {
				// address of a byte of an (immutable) byte string: a read-only cell
				l := e.allocLoc(st)
				bt := types.Typ[types.Uint8]
				e.storeAt(st, bt, l, compCell(bt), StrToCode(StrAt(x, i)))
				e.byteRefs[l.id] = true
				st.vals[in] = l
				break
			}
			st.vals[in] = ElemLoc(SliceBase(x), ElemIndex(SliceOff(x), i))
		default:
			panic("IndexAddr on " + in.X.Type().String())
		}
	case *ssa.Index:
		x := e.value(fr, st, in.X)
		i := e.value(fr, st, in.Index)
		if x.Sort == StringS {
			st.vals[in] = StrToCode(StrAt(x, i))
		} else {
			at := in.X.Type().Underlying().(*types.Array)
			l := ElemLoc(SliceBase(x), ElemIndex(SliceOff(x), i))
			st.vals[in] = e.loadAt(rd, at.Elem(), l, compElem(at.Elem()))
		}
	case *ssa.UnOp:
		x := e.value(fr, st, in.X)
		switch in.Op {
		case token.MUL:
			src := rd
			if rd != st && fr.oldSt != nil && KnownGe(LocObj(x), e.comp(fr.oldSt, allocComp)) {
				// a cell created while evaluating the clause (a captured
				// variable): it does not exist in the old state
				src = st
			}
			st.vals[in] = e.loadPtr(src, in.Type(), x)
		case token.NOT:
			st.vals[in] = Not(x)
		case token.SUB:
			st.vals[in] = Neg(x)
		case token.XOR:
			b := in.Type().Underlying().(*types.Basic)
			if b.Info()&types.IsUnsigned != 0 {
				st.vals[in] = Sub(Sub(pow2(basicWidth(b)), IntT(1)), x)
			} else {
				st.vals[in] = Sub(Neg(x), IntT(1))
			}
		case token.ARROW:
			panic(outsideSubset("channel receive"))
		default:
			panic("unop " + in.Op.String())
		}
	case *ssa.BinOp:
		st.vals[in] = e.binop(in, e.value(fr, st, in.X), e.value(fr, st, in.Y))
	case *ssa.Store:
		addr := e.value(fr, st, in.Addr)
		v := e.value(fr, st, in.Val)
		if e.byteRefs[addr.id] {
			panic(outsideSubset("store into a byte slice (byte slices are modelled as immutable strings)"))
		}
		e.frameCheck(fr, in, st, pc, addr, in.Val.Type())
		e.storePtr(st, in.Val.Type(), addr, v, pc)
	case *ssa.Convert:
		st.vals[in] = e.convert(in, e.value(fr, st, in.X))
	case *ssa.ChangeType:
		x := e.value(fr, st, in.X)
		st.vals[in] = e.changeType(in.X.Type(), in.Type(), x)
	case *ssa.ChangeInterface:
		st.vals[in] = e.value(fr, st, in.X)
	case *ssa.MakeInterface:
		st.vals[in] = e.makeInterface(st, in.X.Type(), e.value(fr, st, in.X))
	case *ssa.TypeAssert:
		e.typeAssert(fr, in, st, pc)
	case *ssa.Extract:
		t := e.value(fr, st, in.Tuple)
		if t.Op != "tuple" {
			panic("extract from non-tuple")
		}
		st.vals[in] = t.Elems[in.Index]
	case *ssa.MakeSlice:
		ln := e.value(fr, st, in.Len)
		cp := e.value(fr, st, in.Cap)
		et := in.Type().Underlying().(*types.Slice).Elem()
		if isByte(et) {
			if ln.Op == "int" && ln.IVal.Int64() <= 64 {
				st.vals[in] = StrT(strings.Repeat("\x00", int(ln.IVal.Int64())))
			} else {
				st.vals[in] = App(DeclUF("zeros", StringS, IntS), ln)
				e.assume(pc, Eq(StrLen(st.vals[in]), ln))
			}
			break
		}
		base := e.allocLoc(st)
		if ln.Op == "int" && ln.IVal.Int64() <= 16 {
			for i := int64(0); i < ln.IVal.Int64(); i++ {
				el := ElemLoc(base, IntT(i))
				if _, ok := isStructVal(et); ok {
					e.zeroInit(st, et, el)
				} else {
					e.storeAt(st, et, el, compElem(et), e.tr.zero(et))
				}
			}
		} else if _, ok := isStructVal(et); !ok {
			// all elements zero: quantified fact on the fresh object
			comp := compElem(et)
			e.leafComp(comp, et)
			i := BoundVar(IntS)
			e.assume(pc, Forall([]*Term{i}, Eq(Select(e.comp(st, comp), ElemLoc(base, i)), e.tr.zero(et))))
		}
		st.vals[in] = MkSlice(base, IntT(0), ln, cp)
	case *ssa.Slice:
		e.sliceOp(fr, in, st, rd, pc)
	case *ssa.MakeMap:
		id := e.newObj(st)
		mt := in.Type().Underlying().(*types.Map)
		has, _, ln := e.mapComps(mt)
		ks := e.tr.sortOf(mt.Key())
		e.setComp(st, has, Store(e.comp(st, has), id, ConstArr(ArrayOf(ks, BoolS), False)))
		e.setComp(st, ln, Store(e.comp(st, ln), id, IntT(0)))
		st.vals[in] = id
	case *ssa.MapUpdate:
		m := e.value(fr, st, in.Map)
		k := e.value(fr, st, in.Key)
		v := e.value(fr, st, in.Value)
		mt := in.Map.Type().Underlying().(*types.Map)
		e.frameCheckObj(fr, in, st, pc, m, "map")
		e.storeAsserts(fr, in, st, pc, m, k, v)
		e.mapUpdate(st, mt, m, k, v)
	case *ssa.Lookup:
		x := e.value(fr, st, in.X)
		k := e.value(fr, st, in.Index)
		if x.Sort == StringS {
			st.vals[in] = StrToCode(StrAt(x, k))
			break
		}
		mt := in.X.Type().Underlying().(*types.Map)
		has, val, _ := e.mapComps(mt)
		h := And(Neq(x, IntT(0)), Select(Select(e.comp(rd, has), x), k)) // a nil map has no entries
		raw := Select(Select(e.comp(rd, val), x), k)
		e.noteLoadedMapVal(rd, mt, raw)
		v := Ite(h, raw, e.tr.zero(mt.Elem()))
		if in.CommaOk {
			st.vals[in] = Tuple(v, h)
		} else {
			st.vals[in] = v
		}
	case *ssa.MakeClosure:
		var bs []*Term
		for _, b := range in.Bindings {
			bs = append(bs, e.value(fr, st, b))
		}
		st.vals[in] = e.funcValue(in.Fn.(*ssa.Function), bs)
	case *ssa.Call:
		res, npc := e.execCall(fr, in, &in.Call, st, pc)
		if res != nil {
			st.vals[in] = res
		} else if in.Type() != nil {
			if tt, ok := in.Type().(*types.Tuple); !ok || tt.Len() > 0 {
				st.vals[in] = e.freshOfType(st, in.Type(), "undef")
			}
		}
		return npc
	case *ssa.Defer:
		d := deferRec{guard: pc, call: &in.Call, instr: in}
		if !in.Call.IsInvoke() {
			if _, isFn := in.Call.Value.(*ssa.Function); !isFn {
				if _, isB := in.Call.Value.(*ssa.Builtin); !isB {
					d.fnval = e.value(fr, st, in.Call.Value)
				}
			}
		} else {
			d.fnval = e.value(fr, st, in.Call.Value)
		}
		for _, a := range in.Call.Args {
			d.args = append(d.args, e.value(fr, st, a))
		}
		fr.defers = append(fr.defers, d)
	case *ssa.Range:
		x := e.value(fr, st, in.X)
		if x.Sort == StringS {
			panic(outsideSubset("range over string"))
		}
		// the iterator is the map id; for string-keyed maps the set of keys
		// already handed out is a ghost (one iteration per map at a time)
		st.vals[in] = x
		if mt, ok := in.X.Type().Underlying().(*types.Map); ok && e.tr.sortOf(mt.Key()) == StringS {
			vs := ArrayOf(StringS, BoolS)
			e.declComp("X:visitedStr", ArrayOf(IntS, vs))
			e.setComp(st, "X:visitedStr", Store(e.comp(st, "X:visitedStr"), x, ConstArr(vs, False)))
		}
	case *ssa.Next:
		e.mapNext(fr, in, st, pc)
	case *ssa.Go, *ssa.Select, *ssa.Send, *ssa.MakeChan:
		panic(outsideSubset(fmt.Sprintf("%T", ins)))
	case *ssa.SliceToArrayPointer:
		x := e.value(fr, st, in.X)
		st.vals[in] = ElemLoc(SliceBase(x), SliceOff(x))
	default:
		panic(fmt.Sprintf("unhandled instruction %T in %s", ins, fr.fn))
	}
	return pc
}

func (e *Engine) noteLoadedMapVal(st *State, mt *types.Map, raw *Term) {
	// values read from a pre-existing map are pre-existing objects
	if raw.Op != "select" || raw.Args[0].Op != "select" || raw.Args[0].Args[0].Op != "sym" || e.alloc0 == nil {
		return
	}
	name := raw.Args[0].Args[0].SVal
	bound, ok := e.heapBound[name]
	if !ok {
		if !strings.HasPrefix(name, "0:") {
			return
		}
		bound = e.alloc0
	}
	if e.loadedFacts[raw.id] {
		return
	}
	e.loadedFacts[raw.id] = true
	mapID := raw.Args[0].Args[1]
	e.wellFormedValueIf(And(Lt(mapID, bound), Gt(mapID, IntT(0))), mt.Elem(), raw, bound)
}

func (e *Engine) fieldAddr(p *Term, structT types.Type, k int) *Term {
	if p.Op == "ite" {
		return Ite(p.Args[0], e.fieldAddr(p.Args[1], structT, k), e.fieldAddr(p.Args[2], structT, k))
	}
	return MkLoc(LocObj(p), PFld(LocPath(p), e.tr.gid(structT, k)))
}

func (e *Engine) freshOfType(st *State, t types.Type, why string) *Term {
	if tt, ok := t.(*types.Tuple); ok {
		els := make([]*Term, tt.Len())
		for i := range els {
			els[i] = e.freshOfType(st, tt.At(i).Type(), why)
		}
		return Tuple(els...)
	}
	if stt, ok := isStructVal(t); ok {
		s := e.tr.structSort(t, stt)
		args := make([]*Term, stt.NumFields())
		for i := range args {
			args[i] = e.freshOfType(st, stt.Field(i).Type(), why)
		}
		return Ctor(s, s.DT.Ctors[0].Name, args...)
	}
	f := Fresh(why, e.tr.sortOf(t))
	e.wellFormedValue(t, f, e.comp(st, allocComp))
	return f
}

func (e *Engine) mapUpdate(st *State, mt *types.Map, m, k, v *Term) {
	has, val, ln := e.mapComps(mt)
	hm := Select(e.comp(st, has), m)
	was := Select(hm, k)
	e.setComp(st, has, Store(e.comp(st, has), m, Store(hm, k, True)))
	vm := Select(e.comp(st, val), m)
	e.setComp(st, val, Store(e.comp(st, val), m, Store(vm, k, v)))
	l := Select(e.comp(st, ln), m)
	e.setComp(st, ln, Store(e.comp(st, ln), m, Ite(was, l, Add(l, IntT(1)))))
}

// mapNext models one step of a map iteration: an arbitrary present key, or
// exhaustion.  The order is unconstrained, which is what makes
// order-dependence observable.
func (e *Engine) mapNext(fr *Frame, in *ssa.Next, st *State, pc *Term) {
	if in.IsString {
		panic(outsideSubset("range over string"))
	}
	rng := in.Iter.(*ssa.Range)
	mt := rng.X.Type().Underlying().(*types.Map)
	m := e.value(fr, st, in.Iter)
	has, val, _ := e.mapComps(mt)
	ok := Fresh("next.ok", BoolS)
	k := Fresh("next.k", e.tr.sortOf(mt.Key()))
	e.assume(pc, Implies(ok, And(Neq(m, IntT(0)), Select(Select(e.comp(st, has), m), k))))
	if e.tr.sortOf(mt.Key()) == StringS {
		// every key is handed out once; when the iteration ends all keys were
		vs := ArrayOf(StringS, BoolS)
		e.declComp("X:visitedStr", ArrayOf(IntS, vs))
		seen := Select(e.comp(st, "X:visitedStr"), m)
		e.assume(pc, Implies(ok, Not(Select(seen, k))))
		kk := BoundVar(StringS)
		e.assume(pc, Implies(Not(ok), Forall([]*Term{kk}, Implies(And(Neq(m, IntT(0)), Select(Select(e.comp(st, has), m), kk)), Select(seen, kk)))))
		e.setComp(st, "X:visitedStr", Store(e.comp(st, "X:visitedStr"), m, Ite(ok, Store(seen, k, True), seen)))
	}
	raw := Select(Select(e.comp(st, val), m), k)
	e.noteLoadedMapVal(st, mt, raw)
	st.vals[in] = Tuple(ok, k, raw)
}

func (e *Engine) makeInterface(st *State, t types.Type, v *Term) *Term {
	if _, ok := t.Underlying().(*types.Interface); ok {
		return v
	}
	tag := IntT(int64(e.tr.tag(t)))
	if a, ok := e.tr.toAny(t, v); ok {
		if _, isStruct := isStructVal(t); !isStruct {
			return MkIface(tag, a)
		}
	}
	// struct payload: boxed
	id := e.newObj(st)
	comp := "B:" + shortTypeName(typeKey(t))
	e.declComp(comp, ArrayOf(IntS, e.tr.sortOf(t)))
	e.setComp(st, comp, Store(e.comp(st, comp), id, v))
	return MkIface(tag, Ctor(AnyS, "a_box", id))
}

func (e *Engine) unboxIface(st *State, t types.Type, iv *Term) *Term {
	if _, isStruct := isStructVal(t); !isStruct {
		if v, ok := e.tr.fromAny(t, IfaceVal(iv)); ok {
			return v
		}
	}
	comp := "B:" + shortTypeName(typeKey(t))
	e.declComp(comp, ArrayOf(IntS, e.tr.sortOf(t)))
	return Select(e.comp(st, comp), Sel(AnyS, "a_box", "abox", IfaceVal(iv)))
}

func (e *Engine) typeAssert(fr *Frame, in *ssa.TypeAssert, st *State, pc *Term) {
	x := e.value(fr, st, in.X)
	if _, toIface := in.AssertedType.Underlying().(*types.Interface); toIface {
		// interface-to-interface: succeeds iff the dynamic type implements it
		var ok *Term = False
		for _, tc := range e.possibleTags(IfaceTag(x)) {
			if tc.tag <= 0 {
				if tc.tag == 0 {
					continue
				}
				ok = Or(ok, And(tc.cond, Fresh("assert.ok", BoolS)))
				continue
			}
			dt := e.tr.typeOfTag(tc.tag)
			if types.Implements(dt, in.AssertedType.Underlying().(*types.Interface)) {
				ok = Or(ok, tc.cond)
			}
		}
		if in.CommaOk {
			st.vals[in] = Tuple(Ite(ok, x, NilIface), ok)
		} else {
			st.vals[in] = x
		}
		return
	}
	tag := IntT(int64(e.tr.tag(in.AssertedType)))
	ok := Eq(IfaceTag(x), tag)
	v := e.unboxIface(st, in.AssertedType, x)
	if in.CommaOk {
		st.vals[in] = Tuple(Ite(ok, v, e.tr.zero(in.AssertedType)), ok)
	} else {
		st.vals[in] = v
	}
}

func (e *Engine) changeType(from, to types.Type, x *Term) *Term {
	fs, ts := e.tr.sortOf(from), e.tr.sortOf(to)
	if fs == ts {
		return x
	}
	// struct <-> struct with identical underlying type
	if fs.Kind == "dt" && ts.Kind == "dt" && len(fs.DT.Ctors) == 1 && len(ts.DT.Ctors) == 1 {
		fc, tc := fs.DT.Ctors[0], ts.DT.Ctors[0]
		args := make([]*Term, len(fc.Fields))
		for i := range fc.Fields {
			args[i] = Sel(fs, fc.Name, fc.Fields[i].Name, x)
		}
		return Ctor(ts, tc.Name, args...)
	}
	panic(fmt.Sprintf("changeType %s -> %s", from, to))
}

func (e *Engine) convert(in *ssa.Convert, x *Term) *Term {
	from, to := in.X.Type(), in.Type()
	fs, ts := e.tr.sortOf(from), e.tr.sortOf(to)
	if fs == StringS && ts == StringS {
		if fb, ok := from.Underlying().(*types.Slice); ok && !isByte(fb.Elem()) {
			panic(outsideSubset("[]rune conversion"))
		}
		return x
	}
	if fs == IntS && ts == IntS {
		fb, ok1 := from.Underlying().(*types.Basic)
		tb, ok2 := to.Underlying().(*types.Basic)
		if ok1 && ok2 {
			if fb.Info()&types.IsFloat != 0 || tb.Info()&types.IsFloat != 0 {
				panic(outsideSubset("float conversion"))
			}
			fw, tw := basicWidth(fb), basicWidth(tb)
			if tb.Info()&types.IsUnsigned != 0 && tw < fw {
				return ModE(x, pow2(tw))
			}
			if tb.Info()&types.IsUnsigned == 0 && tw < fw {
				e.note("narrowing-signed-conversion-treated-as-identity")
			}
		}
		return x
	}
	if fs == IntS && ts == StringS {
		panic(outsideSubset("string(int) conversion"))
	}
	if fs == LocS && ts == LocS {
		return x
	}
	if fs == ts {
		return x
	}
	panic(fmt.Sprintf("convert %s -> %s", from, to))
}

func (e *Engine) sliceOp(fr *Frame, in *ssa.Slice, st, rd *State, pc *Term) {
	x := e.value(fr, st, in.X)
	var lo, hi *Term
	if in.Low != nil {
		lo = e.value(fr, st, in.Low)
	} else {
		lo = IntT(0)
	}
	if x.Sort == StringS {
		if in.High != nil {
			hi = e.value(fr, st, in.High)
		} else {
			hi = StrLen(x)
		}
		st.vals[in] = StrSubstr(x, lo, Sub(hi, lo))
		return
	}
	switch xt := in.X.Type().Underlying().(type) {
	case *types.Pointer: // *[N]T
		at := xt.Elem().Underlying().(*types.Array)
		if isByte(at.Elem()) {
			// pointer to byte array: load the string value
			v := e.loadPtr(rd, xt.Elem(), x)
			if in.High != nil {
				hi = e.value(fr, st, in.High)
			} else {
				hi = StrLen(v)
			}
			st.vals[in] = StrSubstr(v, lo, Sub(hi, lo))
			return
		}
		n := IntT(at.Len())
		if in.High != nil {
			hi = e.value(fr, st, in.High)
		} else {
			hi = n
		}
		st.vals[in] = MkSlice(x, lo, Sub(hi, lo), Sub(n, lo))
	case *types.Slice:
		if in.High != nil {
			hi = e.value(fr, st, in.High)
		} else {
			hi = SliceLen(x)
		}
		cp := Sub(SliceCap(x), lo)
		if in.Max != nil {
			cp = Sub(e.value(fr, st, in.Max), lo)
		}
		st.vals[in] = MkSlice(SliceBase(x), ElemIndex(SliceOff(x), lo), Sub(hi, lo), cp)
	default:
		panic("slice of " + in.X.Type().String())
	}
}

// ---- arithmetic ----

func bitOf(x *Term, j uint) *Term { return ModE(DivE(x, pow2(j)), IntT(2)) }

func (e *Engine) bitop(op token.Token, x, y *Term, width uint) *Term {
	if x.Op == "int" && y.Op == "int" {
		r := new(big.Int)
		switch op {
		case token.AND:
			r.And(x.IVal, y.IVal)
		case token.OR:
			r.Or(x.IVal, y.IVal)
		case token.XOR:
			r.Xor(x.IVal, y.IVal)
		case token.AND_NOT:
			r.AndNot(x.IVal, y.IVal)
		}
		return BigT(r)
	}
	if x.Op == "int" && op != token.AND_NOT {
		x, y = y, x
	}
	if y.Op == "int" && y.IVal.Sign() >= 0 {
		c := y.IVal
		full := new(big.Int).Sub(new(big.Int).Lsh(big.NewInt(1), width), big.NewInt(1))
		switch op {
		case token.AND:
			// low mask 2^k-1
			k := c.BitLen()
			if new(big.Int).Add(c, big.NewInt(1)).Cmp(new(big.Int).Lsh(big.NewInt(1), uint(k))) == 0 {
				return ModE(x, pow2(uint(k)))
			}
			// high mask ^(2^k-1)
			inv := new(big.Int).AndNot(full, c)
			ik := inv.BitLen()
			if new(big.Int).Add(inv, big.NewInt(1)).Cmp(new(big.Int).Lsh(big.NewInt(1), uint(ik))) == 0 {
				return Sub(x, ModE(x, pow2(uint(ik))))
			}
			var acc *Term = IntT(0)
			for j := 0; j < c.BitLen(); j++ {
				if c.Bit(j) == 1 {
					acc = Add(acc, Mul(bitOf(x, uint(j)), pow2(uint(j))))
				}
			}
			return acc
		case token.OR:
			acc := x
			for j := 0; j < c.BitLen(); j++ {
				if c.Bit(j) == 1 {
					acc = Add(acc, Mul(Sub(IntT(1), bitOf(x, uint(j))), pow2(uint(j))))
				}
			}
			return acc
		case token.AND_NOT:
			return e.bitop(token.AND, x, BigT(new(big.Int).AndNot(full, c)), width)
		case token.XOR:
			acc := x
			for j := 0; j < c.BitLen(); j++ {
				if c.Bit(j) == 1 {
					acc = Add(acc, Mul(Sub(IntT(1), Mul(IntT(2), bitOf(x, uint(j)))), pow2(uint(j))))
				}
			}
			return acc
		}
	}
	// both symbolic: named function with a bitwise definition for widths <= 32
	name := map[token.Token]string{token.AND: "bitand", token.OR: "bitor", token.XOR: "bitxor", token.AND_NOT: "bitandnot"}[op]
	u := DeclUF(fmt.Sprintf("%s%d", name, width), IntS, IntS, IntS)
	r := App(u, x, y)
	if width <= 32 && !e.bitDefs[r.id] {
		if e.bitDefs == nil {
			e.bitDefs = map[int]bool{}
		}
		e.bitDefs[r.id] = true
		var acc *Term = IntT(0)
		for j := uint(0); j < width; j++ {
			bx, by := Eq(bitOf(x, j), IntT(1)), Eq(bitOf(y, j), IntT(1))
			var on *Term
			switch op {
			case token.AND:
				on = And(bx, by)
			case token.OR:
				on = Or(bx, by)
			case token.XOR:
				on = Neq(bx, by)
			case token.AND_NOT:
				on = And(bx, Not(by))
			}
			acc = Add(acc, Ite(on, pow2(j), IntT(0)))
		}
		if !x.hasBound && !y.hasBound {
			e.axiom(Eq(r, acc))
		}
	}
	return r
}

func (e *Engine) binop(in *ssa.BinOp, x, y *Term) *Term {
	switch in.Op {
	case token.EQL:
		return e.eqVals(in.X.Type(), x, y)
	case token.NEQ:
		return Not(e.eqVals(in.X.Type(), x, y))
	}
	if x.Sort == StringS {
		switch in.Op {
		case token.ADD:
			return Concat(x, y)
		case token.LSS:
			return StrLt(x, y)
		case token.GTR:
			return StrLt(y, x)
		case token.LEQ:
			return Or(StrLt(x, y), Eq(x, y))
		case token.GEQ:
			return Or(StrLt(y, x), Eq(x, y))
		}
	}
	if x.Sort == BoolS {
		panic("bool binop " + in.Op.String())
	}
	if x.Sort != IntS {
		panic(fmt.Sprintf("binop %s on %s", in.Op, x.Sort.Name))
	}
	var width uint = 64
	unsigned := false
	if b, ok := in.X.Type().Underlying().(*types.Basic); ok {
		if w := basicWidth(b); w > 0 {
			width = w
		}
		unsigned = b.Info()&types.IsUnsigned != 0
	}
	switch in.Op {
	case token.ADD:
		return Add(x, y)
	case token.SUB:
		return Sub(x, y)
	case token.MUL:
		return Mul(x, y)
	case token.QUO:
		if unsigned {
			return DivE(x, y)
		}
		return Ite(Ge(x, IntT(0)), Ite(Gt(y, IntT(0)), DivE(x, y), Neg(DivE(x, Neg(y)))),
			Ite(Gt(y, IntT(0)), Neg(DivE(Neg(x), y)), DivE(Neg(x), Neg(y))))
	case token.REM:
		if unsigned {
			return ModE(x, y)
		}
		ay := Ite(Ge(y, IntT(0)), y, Neg(y))
		return Ite(Ge(x, IntT(0)), ModE(x, ay), Neg(ModE(Neg(x), ay)))
	case token.LSS:
		return Lt(x, y)
	case token.LEQ:
		return Le(x, y)
	case token.GTR:
		return Gt(x, y)
	case token.GEQ:
		return Ge(x, y)
	case token.AND, token.OR, token.XOR, token.AND_NOT:
		return e.bitop(in.Op, x, y, width)
	case token.SHL:
		if y.Op == "int" {
			r := Mul(x, pow2(uint(y.IVal.Int64())))
			if unsigned {
				return ModE(r, pow2(width))
			}
			return r
		}
	case token.SHR:
		if y.Op == "int" {
			return DivE(x, pow2(uint(y.IVal.Int64())))
		}
	}
	panic(outsideSubset("binop " + in.Op.String() + " with symbolic shift"))
}

func (e *Engine) eqVals(t types.Type, x, y *Term) *Term {
	if x.Sort == SliceS {
		// only comparison with nil is legal
		if y == NilSlice {
			return Eq(LocObj(SliceBase(x)), IntT(0))
		}
		if x == NilSlice {
			return Eq(LocObj(SliceBase(y)), IntT(0))
		}
	}
	return Eq(x, y)
}

// ---- frame obligations ----

func (e *Engine) frameCheck(fr *Frame, ins ssa.Instruction, st *State, pc *Term, addr *Term, t types.Type) {
	if !e.frameOn || fr.clause || e.quiet > 0 {
		return
	}
	goal := e.inFrame(addr)
	if goal.IsTrue() {
		return
	}
	e.addObl(fr, "frame", fmt.Sprintf("store#%d", e.ordinal(fr.fn, ins)), e.frameProps, pc, goal, e.posOf(fr, ins))
}

func (e *Engine) frameCheckObj(fr *Frame, ins ssa.Instruction, st *State, pc *Term, obj *Term, what string) {
	if !e.frameOn || fr.clause || e.quiet > 0 {
		return
	}
	goal := e.allocGe(obj)
	for _, m := range e.modLocs {
		if m.obj != nil {
			goal = Or(goal, Eq(obj, m.obj))
		}
	}
	if goal.IsTrue() {
		return
	}
	e.addObl(fr, "frame", fmt.Sprintf("%s#%d", what, e.ordinal(fr.fn, ins)), e.frameProps, pc, goal, e.posOf(fr, ins))
}

func (e *Engine) noteAllocGe(f, prev *Term) {
	if e.allocParent == nil {
		e.allocParent = map[int]*Term{}
	}
	b, k := linForm(prev)
	if b != nil && k.Sign() >= 0 {
		e.allocParent[f.id] = b
	}
	NoteLowerBound(f, prev)
}

// inFrame: the written location is fresh since entry of the verified function
// or listed in its modifies clause.
// allocGe: obj >= alloc0, decided syntactically where the object id is an
// offset of an allocation counter known to be at least alloc0.
func (e *Engine) allocGe(obj *Term) *Term {
	b, k := linForm(obj)
	if b != nil && k.Sign() >= 0 {
		for x := b; x != nil; x = e.allocParent[x.id] {
			if x == e.alloc0 {
				return True
			}
		}
	}
	return Ge(obj, e.alloc0)
}

func (e *Engine) inFrame(addr *Term) *Term {
	if addr.Op == "ite" {
		return Ite(addr.Args[0], e.inFrame(addr.Args[1]), e.inFrame(addr.Args[2]))
	}
	goal := e.allocGe(LocObj(addr))
	for _, m := range e.modLocs {
		if m.loc != nil {
			goal = Or(goal, Eq(addr, m.loc), e.isUnder(addr, m.loc))
		} else if m.obj != nil {
			goal = Or(goal, Eq(LocObj(addr), m.obj))
		}
	}
	return goal
}

// isUnder: addr is a sub-location of loc (a field of a struct-valued field).
func (e *Engine) isUnder(addr, loc *Term) *Term {
	p := LocPath(addr)
	var acc *Term = False
	for d := 0; d < 4; d++ {
		if p.Op != "ctor:pfld" && p.Op != "ctor:pelem" {
			break
		}
		p = p.Args[0]
		acc = Or(acc, And(Eq(LocObj(addr), LocObj(loc)), Eq(p, LocPath(loc))))
	}
	return acc
}

func (e *Engine) addObl(fr *Frame, kind, label string, props []string, pc, goal *Term, pos string) {
	if e.quiet > 0 || (fr != nil && fr.clause) {
		return
	}
	// a goal that is a conjunction (possibly under implications and universal
	// quantifiers) is split into one obligation per conjunct: sharper reports,
	// smaller queries
	if kind == "ensures" || kind == "inv-init" || kind == "inv-step" || kind == "requires" {
		if parts := splitGoal(goal, 0); len(parts) > 1 && len(parts) <= 40 {
			for i, g := range parts {
				e.addOblOne(fr, kind, fmt.Sprintf("%s.%d", label, i+1), props, pc, RestrictGoal(g, pc), pos)
			}
			return
		}
		goal = RestrictGoal(goal, pc)
	}
	e.addOblOne(fr, kind, label, props, pc, goal, pos)
}

func splitGoal(g *Term, depth int) []*Term {
	if depth > 6 {
		return []*Term{g}
	}
	switch g.Op {
	case "and":
		var out []*Term
		for _, a := range g.Args {
			out = append(out, splitGoal(a, depth+1)...)
		}
		return out
	case "or":
		// distribute over the (single) splittable disjunct
		for k, a := range g.Args {
			if a.Op != "and" && a.Op != "forall" {
				continue
			}
			parts := splitGoal(a, depth+1)
			if len(parts) <= 1 {
				continue
			}
			var rest []*Term
			for j, b := range g.Args {
				if j != k {
					rest = append(rest, b)
				}
			}
			var out []*Term
			for _, p := range parts {
				out = append(out, Or(append(append([]*Term{}, rest...), p)...))
			}
			return out
		}
	case "=":
		// an equation between choices: one goal per branch, the branch
		// condition becomes a premise and decides the other side as well
		if len(g.Args) == 2 && g.Args[0].Sort == StringS {
			for k := 0; k < 2; k++ {
				x, y := g.Args[k], g.Args[1-k]
				if x.Op != "ite" {
					continue
				}
				c := x.Args[0]
				var out []*Term
				for _, br := range [][2]*Term{{c, x.Args[1]}, {Not(c), x.Args[2]}} {
					sub := Eq(br[1], Restrict(y, br[0]))
					for _, p := range splitGoal(sub, depth+1) {
						out = append(out, Implies(br[0], p))
					}
				}
				if len(out) <= 24 {
					return out
				}
				break
			}
		}
	case "forall":
		parts := splitGoal(g.Args[0], depth+1)
		if len(parts) > 1 {
			var out []*Term
			for _, p := range parts {
				out = append(out, Forall(g.Bound, p))
			}
			return out
		}
	}
	return []*Term{g}
}

func (e *Engine) addOblOne(fr *Frame, kind, label string, props []string, pc, goal *Term, pos string) {
	ctx := ""
	if fr != nil {
		ctx = fr.path + fr.iter
	}
	id := fmt.Sprintf("%s/%s:%s", shortFn(e.topFn), kind, label)
	if ctx != "" {
		id += " @" + ctx
	}
	id += e.caseSuffix
	if n := e.oblIDs[id]; n > 0 {
		e.oblIDs[id] = n + 1
		id = fmt.Sprintf("%s ~%d", id, n)
	} else {
		e.oblIDs[id] = 1
	}
	o := &Obligation{ID: id, Kind: kind, Props: props, PC: pc, Goal: goal, NAssum: len(e.assumes), Fn: shortFn(e.topFn), Pos: pos}
	e.obls = append(e.obls, o)
}

// ---- defers ----

func (e *Engine) deferHarmless(d deferRec) bool {
	name := ""
	if d.call.IsInvoke() {
		name = d.call.Method.FullName()
	} else if f, ok := d.call.Value.(*ssa.Function); ok {
		name = f.String()
	}
	switch name {
	case "(*os.File).Close", "(io.Closer).Close":
		return true
	}
	return false
}

func (e *Engine) runDefers(fr *Frame, st *State, pc *Term) *Term {
	for i := len(fr.defers) - 1; i >= 0; i-- {
		d := fr.defers[i]
		g := And(pc, d.guard)
		if g.IsFalse() {
			continue
		}
		before := st.clone()
		_, npc := e.doCall(fr, d.instr, d.call, d.fnval, d.args, st, g, fmt.Sprintf("defer#%d", e.ordinal(fr.fn, d.instr)))
		_ = npc
		if g != pc {
			m := e.mergeStates([]edge{{pc: d.guard, st: st}, {pc: Not(d.guard), st: before}})
			st.comps = m.comps
		}
	}
	return pc
}

// storeAsserts checks the `storeassert` clauses of the function under
// verification before a map update (also in inlined callees), for maps whose
// type matches the declared `onstore` parameter list.
func (e *Engine) storeAsserts(fr *Frame, in *ssa.MapUpdate, st *State, pc *Term, m, k, v *Term) {
	ct := e.topContract
	if ct == nil || len(ct.OnStore) == 0 || fr.clause || e.quiet > 0 {
		return
	}
	probe := ct.OnStore[0].Fn
	if probe == nil {
		return
	}
	np := len(probe.Params)
	if np < 3 || typeKey(probe.Params[np-3].Type()) != typeKey(in.Map.Type()) {
		return
	}
	// arguments: the verified function's parameters (entry values), then m, key, val
	var args []*Term
	top := fr
	for top.caller != nil {
		top = top.caller
	}
	for _, p := range top.fn.Params {
		args = append(args, top.entrySt.vals[p])
	}
	args = append(args, m, k, v)
	if len(args) != np {
		return
	}
	site := fmt.Sprintf("%s#%d", shortFn(fr.fn), e.ordinal(fr.fn, in))
	for _, cl := range ct.OnStore {
		saved := cl.Kind
		cl.Kind = "invariant"
		g := e.evalClause(fr, cl, args, nil, st, top.entrySt, pc)
		cl.Kind = saved
		e.addObl(fr, "store", fmt.Sprintf("%s@%s", cl.Label, site), cl.Props, pc, g, e.posOf(fr, in))
	}
}
