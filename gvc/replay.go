package main

// Replay of solver models on the real code: an in-package Go test injected
// with -overlay (nothing is written into /repo).

import (
	"encoding/json"
	"fmt"
	"go/types"
	"os"
	"path/filepath"
	"strconv"
	"strings"
	"time"
)

// modelValues extracts scalar constants from a (get-model) answer.
func modelValues(out string) map[string]string {
	vals := map[string]string{}
	// tokenise by top-level define-fun forms
	idx := 0
	for {
		i := strings.Index(out[idx:], "(define-fun ")
		if i < 0 {
			break
		}
		i += idx
		// find matching paren
		depth := 0
		j := i
		inStr := false
		for ; j < len(out); j++ {
			ch := out[j]
			if inStr {
				if ch == '"' {
					if j+1 < len(out) && out[j+1] == '"' {
						j++
					} else {
						inStr = false
					}
				}
				continue
			}
			if ch == '"' {
				inStr = true
			} else if ch == '(' {
				depth++
			} else if ch == ')' {
				depth--
				if depth == 0 {
					break
				}
			}
		}
		form := out[i : j+1]
		idx = j + 1
		rest := strings.TrimSpace(strings.TrimPrefix(form, "(define-fun "))
		var name string
		if strings.HasPrefix(rest, "|") {
			k := strings.Index(rest[1:], "|")
			name = rest[1 : 1+k]
			rest = strings.TrimSpace(rest[k+2:])
		} else {
			k := strings.IndexAny(rest, " \n")
			name = rest[:k]
			rest = strings.TrimSpace(rest[k:])
		}
		if !strings.HasPrefix(rest, "()") {
			continue
		}
		rest = strings.TrimSpace(rest[2:])
		k := strings.IndexAny(rest, " \n")
		if k < 0 {
			continue
		}
		val := strings.TrimSpace(rest[k:])
		val = strings.TrimSuffix(val, ")")
		vals[name] = strings.TrimSpace(val)
	}
	return vals
}

func smtStringToGo(v string) (string, bool) {
	if len(v) < 2 || v[0] != '"' || v[len(v)-1] != '"' {
		return "", false
	}
	body := v[1 : len(v)-1]
	body = strings.ReplaceAll(body, `""`, `"`)
	var sb strings.Builder
	for i := 0; i < len(body); i++ {
		if strings.HasPrefix(body[i:], `\u{`) {
			k := strings.Index(body[i:], "}")
			if k > 0 {
				n, err := strconv.ParseInt(body[i+3:i+k], 16, 32)
				if err == nil && n < 256 {
					sb.WriteByte(byte(n))
					i += k
					continue
				}
				if err == nil {
					sb.WriteRune(rune(n))
					i += k
					continue
				}
			}
		}
		if strings.HasPrefix(body[i:], `\x`) && i+3 < len(body) {
			n, err := strconv.ParseInt(body[i+2:i+4], 16, 32)
			if err == nil {
				sb.WriteByte(byte(n))
				i += 3
				continue
			}
		}
		sb.WriteByte(body[i])
	}
	return sb.String(), true
}

func smtIntToGo(v string) (string, bool) {
	v = strings.TrimSpace(v)
	if strings.HasPrefix(v, "(- ") {
		n := strings.TrimSuffix(strings.TrimPrefix(v, "(- "), ")")
		if _, err := strconv.ParseInt(n, 10, 64); err == nil {
			return "-" + n, true
		}
		return "", false
	}
	if _, err := strconv.ParseInt(v, 10, 64); err == nil {
		return v, true
	}
	return "", false
}

// tryReplay materialises the model of a failed ensures obligation whose
// function has only scalar parameters, runs the real function in an overlay
// test and evaluates the violated clause (compiled from the contract text).
func (e *Engine) tryReplay(o *Obligation) (string, bool, string) {
	c := o.contract
	cl := o.clause
	if c == nil || cl == nil || o.Kind != "ensures" {
		return "", false, ""
	}
	fn := e.funcsByName[c.Key]
	if fn == nil {
		return "", false, ""
	}
	vals := modelValues(o.Model)
	var decls []string
	var argNames []string
	for _, p := range fn.Params {
		name := "a_" + p.Name()
		argNames = append(argNames, name)
		mv, has := vals["p:"+p.Name()]
		b, ok := p.Type().Underlying().(*types.Basic)
		if !ok {
			return "", false, ""
		}
		tn := types.TypeString(p.Type(), func(pk *types.Package) string {
			if pk.Path() == c.Pkg {
				return ""
			}
			return pk.Name()
		})
		switch {
		case b.Info()&types.IsString != 0:
			s := ""
			if has {
				if g, ok := smtStringToGo(mv); ok {
					s = g
				} else {
					return "", false, ""
				}
			}
			decls = append(decls, fmt.Sprintf("\tvar %s %s = %s(%s)", name, tn, tn, strconv.Quote(s)))
		case b.Info()&types.IsInteger != 0:
			n := "0"
			if has {
				if g, ok := smtIntToGo(mv); ok {
					n = g
				} else {
					return "", false, ""
				}
			}
			decls = append(decls, fmt.Sprintf("\tvar %s %s = %s", name, tn, n))
		case b.Info()&types.IsBoolean != 0:
			v := "false"
			if has && strings.TrimSpace(mv) == "true" {
				v = "true"
			}
			decls = append(decls, fmt.Sprintf("\tvar %s %s = %s", name, tn, v))
		default:
			return "", false, ""
		}
	}
	if fn.Signature.Recv() != nil {
		return "", false, ""
	}
	nres := fn.Signature.Results().Len()
	var resNames []string
	for i := 0; i < nres; i++ {
		resNames = append(resNames, fmt.Sprintf("r%d", i))
	}
	call := fmt.Sprintf("%s(%s)", fn.Name(), strings.Join(argNames, ", "))
	var body strings.Builder
	body.WriteString(strings.Join(decls, "\n") + "\n")
	if nres > 0 {
		fmt.Fprintf(&body, "\t%s := %s\n", strings.Join(resNames, ", "), call)
	} else {
		fmt.Fprintf(&body, "\t%s\n", call)
	}
	all := append(append([]string{}, argNames...), resNames...)
	fmt.Fprintf(&body, "\tif !%s(%s) {\n\t\tt.Fatalf(\"GVC-REPLAY-VIOLATED %%s with inputs %%#v results %%#v\", %s, []any{%s}, []any{%s})\n\t}\n",
		cl.StubFn, strings.Join(all, ", "), strconv.Quote(o.ID), strings.Join(argNames, ", "), strings.Join(resNames, ", "))
	pkgName := ""
	for _, cf := range e.files {
		if cf.Pkg == c.Pkg {
			pkgName = cf.PkgName
		}
	}
	test := fmt.Sprintf("//go:build verif\n\npackage %s\n\nimport \"testing\"\n\nfunc TestGvcReplay(t *testing.T) {\n%s}\n", pkgName, body.String())
	out, ok := e.runOverlayTest(c, test)
	return out, ok, test
}

// runOverlayTest runs an in-package test together with the generated stub file.
func (e *Engine) runOverlayTest(c *Contract, test string) (string, bool) {
	tmp, err := os.MkdirTemp("", "gvc-replay-")
	if err != nil {
		return err.Error(), false
	}
	defer os.RemoveAll(tmp)
	stubPath := filepath.Join(c.Dir, stubFileName)
	testPath := filepath.Join(c.Dir, "zz_gvc_replay_verif_test.go")
	stubTmp := filepath.Join(tmp, "stub.go")
	testTmp := filepath.Join(tmp, "replay_test.go")
	os.WriteFile(stubTmp, []byte(e.stubs[stubPath]), 0o644)
	os.WriteFile(testTmp, []byte(test), 0o644)
	repl := map[string]string{stubPath: stubTmp, testPath: testTmp}
	k := 0
	for sp, text := range e.stubs {
		if sp == stubPath {
			continue
		}
		k++
		f := filepath.Join(tmp, fmt.Sprintf("stub%d.go", k))
		os.WriteFile(f, []byte(text), 0o644)
		repl[sp] = f
	}
	ov := map[string]any{"Replace": repl}
	ovb, _ := json.Marshal(ov)
	ovPath := filepath.Join(tmp, "overlay.json")
	os.WriteFile(ovPath, ovb, 0o644)
	out, _ := runCmd(c.Dir, 120*time.Second, []string{"GOFLAGS=-mod=mod", "GOPROXY=off", "GOSUMDB=off", "GOTOOLCHAIN=local"},
		"go", "test", "-tags", "verif", "-overlay", ovPath, "-vet=off", "-count=1", "-timeout", "60s", "-run", "^TestGvcReplay$", ".")
	return out, strings.Contains(out, "GVC-REPLAY-VIOLATED")
}

// replayLoud confirms a failed "failure is loud" obligation of a Package
// method on the real code: the packager is run against a writer that fails at
// its k-th write, for every k up to the number of writes of a clean run; the
// violation is confirmed if some run returns nil although a write failed.
func (e *Engine) replayLoud(o *Obligation) (string, bool, string) {
	c := o.contract
	if c == nil || !strings.HasSuffix(c.Key, ".Package") {
		return "", false, ""
	}
	pkgName := ""
	for _, cf := range e.files {
		if cf.Pkg == c.Pkg {
			pkgName = cf.PkgName
		}
	}
	test := fmt.Sprintf(`//go:build verif

package %s

import (
	"errors"
	"os"
	"path/filepath"
	"testing"

	"github.com/goreleaser/nfpm/v2"
	"github.com/goreleaser/nfpm/v2/files"
)

type gvcFailWriter struct {
	n, failAt int
	failed    bool
}

func (w *gvcFailWriter) Write(p []byte) (int, error) {
	if w.n == w.failAt {
		w.failed = true
		w.n++
		return 0, errors.New("gvc: injected write failure")
	}
	w.n++
	return len(p), nil
}

func TestGvcReplay(t *testing.T) {
	dir := t.TempDir()
	src := filepath.Join(dir, "payload")
	if err := os.WriteFile(src, make([]byte, 70000), 0o644); err != nil {
		t.Fatal(err)
	}
	mk := func() *nfpm.Info {
		return nfpm.WithDefaults(&nfpm.Info{
			Name: "gvcreplay", Arch: "amd64", Version: "1.0.0", Description: "d", Maintainer: "m <m@example.com>",
			Overridables: nfpm.Overridables{Contents: files.Contents{{Source: src, Destination: "/usr/bin/payload"}}},
		})
	}
	clean := &gvcFailWriter{failAt: -1}
	if err := Default.Package(mk(), clean); err != nil {
		t.Skipf("clean run failed: %%v", err)
	}
	for k := 0; k < clean.n; k++ {
		w := &gvcFailWriter{failAt: k}
		err := Default.Package(mk(), w)
		if err == nil && w.failed {
			t.Fatalf("GVC-REPLAY-VIOLATED %%s: Package returned nil although write #%%d of %%d to the destination failed", %q, k, clean.n)
		}
	}
}
`, pkgName, o.ID)
	out, ok := e.runOverlayTest(c, test)
	return out, ok, test
}
