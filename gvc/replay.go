package main

// Replay of solver models on the real code: an in-package Go test injected
// with -overlay (nothing is written into /repo).

import (
	"encoding/json"
	"fmt"
	"go/types"
	"os"
	"path/filepath"
	"sort"
	"strconv"
	"strings"
	"time"
)

// modelValues extracts scalar constants from a (get-model) answer.
func modelValues(out string) map[string]string {
	vals := map[string]string{}
	// tokenise by top-level define-fun forms
	idx := 0
	for {
		i := strings.Index(out[idx:], "(define-fun ")
		if i < 0 {
			break
		}
		i += idx
		// find matching paren
		depth := 0
		j := i
		inStr := false
		for ; j < len(out); j++ {
			ch := out[j]
			if inStr {
				if ch == '"' {
					if j+1 < len(out) && out[j+1] == '"' {
						j++
					} else {
						inStr = false
					}
				}
				continue
			}
			if ch == '"' {
				inStr = true
			} else if ch == '(' {
				depth++
			} else if ch == ')' {
				depth--
				if depth == 0 {
					break
				}
			}
		}
		form := out[i : j+1]
		idx = j + 1
		rest := strings.TrimSpace(strings.TrimPrefix(form, "(define-fun "))
		var name string
		if strings.HasPrefix(rest, "|") {
			k := strings.Index(rest[1:], "|")
			name = rest[1 : 1+k]
			rest = strings.TrimSpace(rest[k+2:])
		} else {
			k := strings.IndexAny(rest, " \n")
			name = rest[:k]
			rest = strings.TrimSpace(rest[k:])
		}
		if !strings.HasPrefix(rest, "()") {
			continue
		}
		rest = strings.TrimSpace(rest[2:])
		k := strings.IndexAny(rest, " \n")
		if k < 0 {
			continue
		}
		val := strings.TrimSpace(rest[k:])
		val = strings.TrimSuffix(val, ")")
		vals[name] = strings.TrimSpace(val)
	}
	return vals
}

func smtStringToGo(v string) (string, bool) {
	if len(v) < 2 || v[0] != '"' || v[len(v)-1] != '"' {
		return "", false
	}
	body := v[1 : len(v)-1]
	body = strings.ReplaceAll(body, `""`, `"`)
	var sb strings.Builder
	for i := 0; i < len(body); i++ {
		if strings.HasPrefix(body[i:], `\u{`) {
			k := strings.Index(body[i:], "}")
			if k > 0 {
				n, err := strconv.ParseInt(body[i+3:i+k], 16, 32)
				if err == nil && n < 256 {
					sb.WriteByte(byte(n))
					i += k
					continue
				}
				if err == nil {
					sb.WriteRune(rune(n))
					i += k
					continue
				}
			}
		}
		if strings.HasPrefix(body[i:], `\x`) && i+3 < len(body) {
			n, err := strconv.ParseInt(body[i+2:i+4], 16, 32)
			if err == nil {
				sb.WriteByte(byte(n))
				i += 3
				continue
			}
		}
		sb.WriteByte(body[i])
	}
	return sb.String(), true
}

func smtIntToGo(v string) (string, bool) {
	v = strings.TrimSpace(v)
	if strings.HasPrefix(v, "(- ") {
		n := strings.TrimSuffix(strings.TrimPrefix(v, "(- "), ")")
		if _, err := strconv.ParseInt(n, 10, 64); err == nil {
			return "-" + n, true
		}
		return "", false
	}
	if _, err := strconv.ParseInt(v, 10, 64); err == nil {
		return v, true
	}
	return "", false
}

// tryReplay materialises the solver's model as Go values, runs the real
// function in an overlay test and evaluates the violated clause (compiled from
// the contract text; old(e) is evaluated on a second, untouched copy of the
// inputs).  For frame obligations of functions with an empty modifies clause
// the test checks that the inputs are unchanged after the call.
func (e *Engine) tryReplay(o *Obligation) (string, bool, string) {
	c := o.contract
	if c == nil || (o.Kind != "ensures" && o.Kind != "frame") {
		return "", false, ""
	}
	if o.Kind == "ensures" && o.clause == nil {
		return "", false, ""
	}
	if o.Kind == "frame" && (len(c.Modifies) != 1 || strings.TrimSpace(c.Modifies[0].Expr) != "") {
		return "", false, ""
	}
	fn := e.funcsByName[c.Key]
	if fn == nil || fn.Parent() != nil {
		return "", false, ""
	}
	vals := getValues(o.Model)
	var terms []*Term
	var nodes []*inputNode
	for _, in := range o.inputs {
		in.terms(&terms, &nodes)
	}
	if len(vals) != len(nodes) || len(nodes) == 0 {
		return "", false, ""
	}
	for i, n := range nodes {
		n.Value = vals[i]
	}
	imports := map[string]bool{"testing": true}
	var decls []string
	var argNames, preNames []string
	for _, in := range o.inputs {
		lit, ok := in.goLiteral(c.Pkg, imports)
		if !ok {
			return "", false, ""
		}
		tn := types.TypeString(in.T, qualifier(c.Pkg))
		a, p := "a_"+in.Name, "pre_"+in.Name
		decls = append(decls, fmt.Sprintf("\tvar %s %s = %s", a, tn, lit))
		decls = append(decls, fmt.Sprintf("\tvar %s %s = %s", p, tn, lit))
		argNames = append(argNames, a)
		preNames = append(preNames, p)
	}
	nres := fn.Signature.Results().Len()
	var resNames []string
	for i := 0; i < nres; i++ {
		resNames = append(resNames, fmt.Sprintf("r%d", i))
	}
	var call string
	if fn.Signature.Recv() != nil {
		call = fmt.Sprintf("%s.%s(%s)", argNames[0], fn.Name(), strings.Join(argNames[1:], ", "))
	} else {
		call = fmt.Sprintf("%s(%s)", fn.Name(), strings.Join(argNames, ", "))
	}
	if fn.Signature.Variadic() {
		call = strings.TrimSuffix(call, ")") + "...)"
	}
	var body strings.Builder
	body.WriteString(strings.Join(decls, "\n") + "\n")
	if nres > 0 {
		fmt.Fprintf(&body, "\t%s := %s\n", strings.Join(resNames, ", "), call)
		for _, r := range resNames {
			fmt.Fprintf(&body, "\t_ = %s\n", r)
		}
	} else {
		fmt.Fprintf(&body, "\t%s\n", call)
	}
	extra := ""
	if o.Kind == "ensures" {
		rc, err := c.replayClause(o.clause, "gvcReplayClause")
		if err != nil {
			return "", false, ""
		}
		extra = rc
		all := append(append(append([]string{}, argNames...), preNames...), resNames...)
		fmt.Fprintf(&body, "\tif !gvcReplayClause(%s) {\n\t\tt.Fatalf(\"GVC-REPLAY-VIOLATED %%s\\ninputs: %%#v\\nresults: %%#v\", %s, gvcDump(%s), gvcDump(%s))\n\t}\n",
			strings.Join(all, ", "), strconv.Quote(o.ID), strings.Join(preNames, ", "), strings.Join(append([]string{"nil"}, resNames...), ", "))
	} else {
		imports["reflect"] = true
		for i := range argNames {
			fmt.Fprintf(&body, "\tif !reflect.DeepEqual(%s, %s) {\n\t\tt.Fatalf(\"GVC-REPLAY-VIOLATED %%s: the call modified memory reachable from its argument %s\\nbefore: %%s\\nafter:  %%s\", %s, gvcDump(%s), gvcDump(%s))\n\t}\n",
				argNames[i], preNames[i], o.inputs[i].Name, strconv.Quote(o.ID), preNames[i], argNames[i])
		}
	}
	imports["encoding/json"] = true
	var imps []string
	for im := range imports {
		imps = append(imps, im)
	}
	sort.Strings(imps)
	var ib strings.Builder
	for _, im := range imps {
		fmt.Fprintf(&ib, "\t%q\n", im)
	}
	pkgName := ""
	for _, cf := range e.files {
		if cf.Pkg == c.Pkg {
			pkgName = cf.PkgName
		}
	}
	test := fmt.Sprintf("//go:build verif\n\npackage %s\n\nimport (\n%s)\n\nfunc gvcDump(vs ...any) string {\n\tb, _ := json.Marshal(vs)\n\treturn string(b)\n}\n\n%s\nfunc TestGvcReplay(t *testing.T) {\n%s}\n", pkgName, ib.String(), extra, body.String())
	out, ok := e.runOverlayTest(c, test)
	return out, ok, test
}

// runOverlayTest runs an in-package test together with the generated stub file.
func (e *Engine) runOverlayTest(c *Contract, test string) (string, bool) {
	tmp, err := os.MkdirTemp("", "gvc-replay-")
	if err != nil {
		return err.Error(), false
	}
	defer os.RemoveAll(tmp)
	stubPath := filepath.Join(c.Dir, stubFileName)
	testPath := filepath.Join(c.Dir, "zz_gvc_replay_verif_test.go")
	stubTmp := filepath.Join(tmp, "stub.go")
	testTmp := filepath.Join(tmp, "replay_test.go")
	os.WriteFile(stubTmp, []byte(e.stubs[stubPath]), 0o644)
	os.WriteFile(testTmp, []byte(test), 0o644)
	repl := map[string]string{stubPath: stubTmp, testPath: testTmp}
	k := 0
	for sp, text := range e.stubs {
		if sp == stubPath {
			continue
		}
		k++
		f := filepath.Join(tmp, fmt.Sprintf("stub%d.go", k))
		os.WriteFile(f, []byte(text), 0o644)
		repl[sp] = f
	}
	ov := map[string]any{"Replace": repl}
	ovb, _ := json.Marshal(ov)
	ovPath := filepath.Join(tmp, "overlay.json")
	os.WriteFile(ovPath, ovb, 0o644)
	out, _ := runCmd(c.Dir, 120*time.Second, []string{"GOFLAGS=-mod=mod", "GOPROXY=off", "GOSUMDB=off", "GOTOOLCHAIN=local"},
		"go", "test", "-tags", "verif", "-overlay", ovPath, "-vet=off", "-count=1", "-timeout", "60s", "-run", "^TestGvcReplay$", ".")
	return out, strings.Contains(out, "GVC-REPLAY-VIOLATED")
}

// replayLoud confirms a failed "failure is loud" obligation of a Package
// method on the real code: the packager is run against a writer that fails at
// its k-th write, for every k up to the number of writes of a clean run; the
// violation is confirmed if some run returns nil although a write failed.
func (e *Engine) replayLoud(o *Obligation) (string, bool, string) {
	c := o.contract
	if c == nil || !strings.HasSuffix(c.Key, ".Package") {
		return "", false, ""
	}
	pkgName := ""
	for _, cf := range e.files {
		if cf.Pkg == c.Pkg {
			pkgName = cf.PkgName
		}
	}
	test := fmt.Sprintf(`//go:build verif

package %s

import (
	"errors"
	"os"
	"path/filepath"
	"testing"

	"github.com/goreleaser/nfpm/v2"
	"github.com/goreleaser/nfpm/v2/files"
)

type gvcFailWriter struct {
	n, failAt int
	failed    bool
}

func (w *gvcFailWriter) Write(p []byte) (int, error) {
	if w.n == w.failAt {
		w.failed = true
		w.n++
		return 0, errors.New("gvc: injected write failure")
	}
	w.n++
	return len(p), nil
}

func TestGvcReplay(t *testing.T) {
	dir := t.TempDir()
	src := filepath.Join(dir, "payload")
	if err := os.WriteFile(src, make([]byte, 70000), 0o644); err != nil {
		t.Fatal(err)
	}
	mk := func() *nfpm.Info {
		return nfpm.WithDefaults(&nfpm.Info{
			Name: "gvcreplay", Arch: "amd64", Version: "1.0.0", Description: "d", Maintainer: "m <m@example.com>",
			Overridables: nfpm.Overridables{Contents: files.Contents{{Source: src, Destination: "/usr/bin/payload"}}},
		})
	}
	clean := &gvcFailWriter{failAt: -1}
	if err := Default.Package(mk(), clean); err != nil {
		t.Skipf("clean run failed: %%v", err)
	}
	for k := 0; k < clean.n; k++ {
		w := &gvcFailWriter{failAt: k}
		err := Default.Package(mk(), w)
		if err == nil && w.failed {
			t.Fatalf("GVC-REPLAY-VIOLATED %%s: Package returned nil although write #%%d of %%d to the destination failed", %q, k, clean.n)
		}
	}
}
`, pkgName, o.ID)
	out, ok := e.runOverlayTest(c, test)
	return out, ok, test
}

// replayPlan confirms a failed store assertion of the content plan (C05) on
// the real code: every ordered pair of entries over a small universe of
// overlapping destinations and entry types is planned, and the plan is checked
// against the property itself (no path present both as file and as directory,
// nothing beneath a non-directory, no entry silently replaced).
func (e *Engine) replayPlan(o *Obligation) (string, bool, string) {
	c := o.contract
	if c == nil || !strings.HasSuffix(c.Key, "files.PrepareForPackager") {
		return "", false, ""
	}
	test := fmt.Sprintf(`//go:build verif

package files

import (
	"os"
	"path/filepath"
	"strings"
	"testing"
	"time"
)

func TestGvcReplay(t *testing.T) {
	dir := t.TempDir()
	src := filepath.Join(dir, "a")
	os.WriteFile(src, []byte("x"), 0o644)
	tree := filepath.Join(dir, "t")
	os.MkdirAll(filepath.Join(tree, "bar"), 0o755)
	os.WriteFile(filepath.Join(tree, "bar", "baz"), []byte("y"), 0o644)
	os.WriteFile(filepath.Join(tree, "a"), []byte("z"), 0o644)
	universe := []*Content{
		{Source: src, Destination: "/foo"},
		{Source: src, Destination: "/foo/bar"},
		{Source: src, Destination: "/foo/a"},
		{Destination: "/foo", Type: TypeDir},
		{Destination: "/foo/bar", Type: TypeDir},
		{Source: "target", Destination: "/foo", Type: TypeSymlink},
		{Source: "target", Destination: "/foo/bar", Type: TypeSymlink},
		{Source: tree, Destination: "/foo", Type: TypeTree},
		{Source: tree, Destination: "/", Type: TypeTree},
	}
	for i, a := range universe {
		for j, b := range universe {
			if i == j {
				continue
			}
			in := Contents{a, b}
			res, err := PrepareForPackager(in, 0, "", false, time.Time{})
			if err != nil {
				continue
			}
			byPath := map[string][]*Content{}
			for _, c := range res {
				k := strings.TrimRight(c.Destination, "/")
				byPath[k] = append(byPath[k], c)
			}
			for k, cs := range byPath {
				if len(cs) > 1 {
					t.Fatalf("GVC-REPLAY-VIOLATED %%s: entries %%v + %%v: path %%q is in the plan %%d times (%%v)", %q, a, b, k, len(cs), cs)
				}
			}
			for _, c := range res {
				if c.Type == TypeDir || c.Type == TypeImplicitDir {
					continue
				}
				for _, d := range res {
					if d != c && strings.HasPrefix(d.Destination, strings.TrimRight(c.Destination, "/")+"/") {
						t.Fatalf("GVC-REPLAY-VIOLATED %%s: entries %%v + %%v: %%v lies beneath the non-directory %%v", %q, a, b, d, c)
					}
				}
			}
			for _, decl := range in {
				if decl.Type == TypeTree || decl.Type == TypeDir {
					continue
				}
				for _, c := range res {
					if c.Destination == decl.Destination && c.Type != TypeImplicitDir && decl.Source != "" && c.Source != decl.Source && c.Source != ToNixPath(decl.Source) {
						t.Fatalf("GVC-REPLAY-VIOLATED %%s: entries %%v + %%v: declared entry %%v was silently replaced by %%v", %q, a, b, decl, c)
					}
				}
			}
		}
	}
}
`, o.ID, o.ID, o.ID)
	out, ok := e.runOverlayTest(c, test)
	return out, ok, test
}

// replaySignerError confirms on the real code that a failing signing callback's
// own error is not reachable through errors.Is from the returned error.
func (e *Engine) replaySignerError(o *Obligation) (string, bool, string) {
	c := o.contract
	if c == nil {
		return "", false, ""
	}
	fn := e.funcsByName[c.Key]
	if fn == nil || len(fn.Params) != 4 {
		return "", false, ""
	}
	test := fmt.Sprintf(`//go:build verif

package deb

import (
	"errors"
	"io"
	"testing"

	"github.com/goreleaser/nfpm/v2"
)

func TestGvcReplay(t *testing.T) {
	sentinel := errors.New("gvc: injected signer failure")
	info := &nfpm.Info{}
	info.Deb.Signature.SignFn = func(io.Reader) ([]byte, error) { return nil, sentinel }
	_, _, err := %s(info, []byte("2.0\n"), []byte("control"), []byte("data"))
	if err == nil {
		t.Fatalf("GVC-REPLAY-VIOLATED %%s: the signer failed but no error was returned", %q)
	}
	if !errors.Is(err, sentinel) {
		t.Fatalf("GVC-REPLAY-VIOLATED %%s: errors.Is(err, signerErr) is false for err = %%v (%%T)", %q, err, err)
	}
}
`, fn.Name(), o.ID, o.ID)
	out, ok := e.runOverlayTest(c, test)
	return out, ok, test
}

// replaySignerTyped confirms on the real code that a failing signing callback
// does not surface as an identifiable signing failure from Package.
func (e *Engine) replaySignerTyped(o *Obligation) (string, bool, string) {
	c := o.contract
	if c == nil || !strings.HasSuffix(c.Key, ".Package") {
		return "", false, ""
	}
	pkgName := ""
	for _, cf := range e.files {
		if cf.Pkg == c.Pkg {
			pkgName = cf.PkgName
		}
	}
	sigField := map[string]string{"deb": "Deb", "rpm": "RPM", "apk": "APK"}[pkgName]
	if sigField == "" {
		return "", false, ""
	}
	test := fmt.Sprintf(`//go:build verif

package %s

import (
	"errors"
	"io"
	"os"
	"path/filepath"
	"testing"

	"github.com/goreleaser/nfpm/v2"
	"github.com/goreleaser/nfpm/v2/files"
)

func TestGvcReplay(t *testing.T) {
	dir := t.TempDir()
	src := filepath.Join(dir, "payload")
	os.WriteFile(src, []byte("x"), 0o644)
	sentinel := errors.New("gvc: injected signer failure")
	info := nfpm.WithDefaults(&nfpm.Info{
		Name: "gvcreplay", Arch: "amd64", Version: "1.0.0", Description: "d", Maintainer: "m <m@example.com>",
		Overridables: nfpm.Overridables{Contents: files.Contents{{Source: src, Destination: "/usr/bin/payload"}}},
	})
	info.%s.Signature.SignFn = func(io.Reader) ([]byte, error) { return nil, sentinel }
	err := Default.Package(info, io.Discard)
	if err == nil {
		t.Fatalf("GVC-REPLAY-VIOLATED %%s: the signer failed but Package returned nil", %q)
	}
	var sf *nfpm.ErrSigningFailure
	if !errors.As(err, &sf) {
		t.Fatalf("GVC-REPLAY-VIOLATED %%s: the error is not identifiable as a signing failure: %%v (%%T)", %q, err, err)
	}
	if !errors.Is(err, sentinel) {
		t.Fatalf("GVC-REPLAY-VIOLATED %%s: the signer's own error is not wrapped: %%v", %q, err)
	}
}
`, pkgName, sigField, o.ID, o.ID, o.ID)
	out, ok := e.runOverlayTest(c, test)
	return out, ok, test
}
