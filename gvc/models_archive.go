package main

import (
	"go/types"
)

// stacked writer helper: writes data to the writer below, makes errors sticky.
func (e *Engine) pushDown(c *CallCtx, l *Term, data *Term) *Term {
	under := e.ghostGet(c.st, "under", IfaceS, l)
	_, err := e.writeTo(c, under, data)
	sticky := e.ghostGet(c.st, "werr", IfaceS, l)
	e.ghostSet(c.st, "werr", IfaceS, l, Ite(Eq(sticky, NilIface), err, sticky))
	return err
}

// guarded runs f on a copy of the state under pc&&cond and merges the result back.
func (e *Engine) guarded(c *CallCtx, cond *Term, f func(sub *CallCtx)) {
	if cond.IsFalse() {
		return
	}
	s2 := c.st.clone()
	sub := *c
	sub.st = s2
	sub.pc = And(c.pc, cond)
	sub.pcOut = sub.pc
	f(&sub)
	mm := e.mergeStates([]edge{{pc: cond, st: s2}, {pc: Not(cond), st: c.st}})
	c.st.comps = mm.comps
}

func registerArchiveModels(e *Engine) {
	m := e.models
	// ---------------- archive/tar ----------------
	m["archive/tar.NewWriter"] = func(c *CallCtx) *Term {
		l := e.allocLoc(c.st)
		e.ghostSet(c.st, "under", IfaceS, l, c.args[0])
		e.ghostSet(c.st, "werr", IfaceS, l, NilIface)
		e.ghostSet(c.st, "tarPad", IntS, l, IntT(0))
		e.ghostSet(c.st, "tarRemaining", IntS, l, IntT(0))
		e.ghostSet(c.st, "tarClosed", BoolS, l, False)
		e.ghostSet(c.st, "entries", IntS, l, IntT(0))
		e.ghostSet(c.st, "tarBytes", IntS, l, IntT(0))
		e.ghostSet(c.st, "tarStream", StringS, l, StrT(""))
		e.ghostSet(c.st, "tarManifest", StringS, l, StrT(""))
		return l
	}
	m["(*archive/tar.Writer).WriteHeader"] = func(c *CallCtx) *Term {
		l, h := c.args[0], c.args[1]
		HT := e.namedType("archive/tar", "Header")
		hv := func(n string) *Term { return e.getField(c.st, HT, h, n) }
		sticky := e.ghostGet(c.st, "werr", IfaceS, l)
		rem := e.ghostGet(c.st, "tarRemaining", IntS, l)
		closed := e.ghostGet(c.st, "tarClosed", BoolS, l)
		pre := Ite(Neq(sticky, NilIface), sticky, Ite(closed, e.libErr("tar:closed"), Ite(Gt(rem, IntT(0)), e.libErr("tar:missed"), NilIface)))
		bad := Neq(pre, NilIface)
		var werr *Term = NilIface
		e.guarded(c, Not(bad), func(s *CallCtx) {
			pad := e.ghostGet(s.st, "tarPad", IntS, l)
			typeflag := hv("Typeflag")
			size := hv("Size")
			entry := uf("tarEntry", IntS, hv("Name"), hv("Mode"), size, hv("ModTime"), typeflag, hv("Linkname"), hv("Uname"), hv("Gname"), hv("Format"))
			nblk := uf("tarHdrBlocks", IntS, entry)
			e.axiom(Ge(nblk, IntT(1)))
			hdrLen := Mul(nblk, IntT(512))
			blk := uf("tarHdrBytes", StringS, entry)
			e.axiom(Eq(StrLen(blk), hdrLen))
			z := uf("zeros", StringS, pad)
			e.axiom(Eq(StrLen(z), pad))
			werr = e.pushDown(s, l, Concat(z, blk))
			e.ghostSet(s.st, "tarStream", StringS, l, Concat(e.ghostGet(s.st, "tarStream", StringS, l), z, blk))
			// logical content of the archive: per entry an (injective, self-delimiting)
			// description of the header followed by the body bytes
			e.ghostSet(s.st, "tarManifest", StringS, l, Concat(e.ghostGet(s.st, "tarManifest", StringS, l),
				uf("tarHead", StringS, hv("Name"), hv("Mode"), size, typeflag, hv("Linkname"), hv("Uname"), hv("Gname"), hv("ModTime"))))
			// only regular files carry a body
			isReg := Or(Eq(typeflag, IntT('0')), Eq(typeflag, IntT(0)))
			bodySize := Ite(isReg, size, IntT(0))
			e.ghostSet(s.st, "tarRemaining", IntS, l, bodySize)
			e.ghostSet(s.st, "lastBody", StringS, l, StrT(""))
			e.ghostSet(s.st, "lastName", StringS, l, hv("Name"))
			e.ghostSet(s.st, "tarPad", IntS, l, ModE(Sub(IntT(512), ModE(bodySize, IntT(512))), IntT(512)))
			e.ghostSet(s.st, "entries", IntS, l, uf("tcons", IntS, e.ghostGet(s.st, "entries", IntS, l), entry))
			e.ghostSet(s.st, "tarBytes", IntS, l, Add(e.ghostGet(s.st, "tarBytes", IntS, l), Add(pad, hdrLen)))
		})
		e.guarded(c, And(bad, Eq(sticky, NilIface)), func(s *CallCtx) {
			e.ghostSet(s.st, "werr", IfaceS, l, pre)
		})
		return Ite(bad, pre, werr)
	}
	m["(*archive/tar.Writer).Write"] = func(c *CallCtx) *Term {
		l, p := c.args[0], c.args[1]
		sticky := e.ghostGet(c.st, "werr", IfaceS, l)
		bad := Neq(sticky, NilIface)
		rem := e.ghostGet(c.st, "tarRemaining", IntS, l)
		tooLong := Gt(StrLen(p), rem)
		n := Ite(tooLong, rem, StrLen(p))
		var werr *Term = NilIface
		e.guarded(c, Not(bad), func(s *CallCtx) {
			data := StrSubstr(p, IntT(0), n)
			werr = e.pushDown(s, l, data)
			e.ghostSet(s.st, "tarStream", StringS, l, Concat(e.ghostGet(s.st, "tarStream", StringS, l), data))
			e.ghostSet(s.st, "tarManifest", StringS, l, Concat(e.ghostGet(s.st, "tarManifest", StringS, l), data))
			e.ghostSet(s.st, "tarRemaining", IntS, l, Sub(rem, n))
			e.ghostSet(s.st, "lastBody", StringS, l, Concat(e.ghostGet(s.st, "lastBody", StringS, l), data))
			e.ghostSet(s.st, "entries", IntS, l, uf("tbody", IntS, e.ghostGet(s.st, "entries", IntS, l), data))
			e.ghostSet(s.st, "tarBytes", IntS, l, Add(e.ghostGet(s.st, "tarBytes", IntS, l), n))
		})
		err := Ite(bad, sticky, Ite(Neq(werr, NilIface), werr, Ite(tooLong, e.libErr("tar:toolong"), NilIface)))
		return c.ret(Ite(Or(bad, Neq(werr, NilIface)), IntT(0), n), err)
	}
	m["(*archive/tar.Writer).Close"] = func(c *CallCtx) *Term {
		l := c.args[0]
		sticky := e.ghostGet(c.st, "werr", IfaceS, l)
		closed := e.ghostGet(c.st, "tarClosed", BoolS, l)
		rem := e.ghostGet(c.st, "tarRemaining", IntS, l)
		missed := Gt(rem, IntT(0))
		pre := Ite(closed, NilIface, Ite(Neq(sticky, NilIface), sticky, Ite(missed, e.libErr("tar:missed"), NilIface)))
		skip := Or(closed, Neq(pre, NilIface))
		var werr *Term = NilIface
		e.guarded(c, Not(skip), func(s *CallCtx) {
			pad := e.ghostGet(s.st, "tarPad", IntS, l)
			z := uf("zeros", StringS, Add(pad, IntT(1024)))
			e.axiom(Eq(StrLen(z), Add(pad, IntT(1024))))
			// what the archive consisted of when it was closed (ghost, for the
			// segment contracts of the apk writer)
			e.globSet(s.st, "tarStreamAtClose", StringS, e.ghostGet(s.st, "tarStream", StringS, l))
			e.globSet(s.st, "tarPadAtClose", IntS, pad)
			e.globSet(s.st, "tarManifestAtClose", StringS, e.ghostGet(s.st, "tarManifest", StringS, l))
			werr = e.pushDown(s, l, z)
			e.ghostSet(s.st, "tarStream", StringS, l, Concat(e.ghostGet(s.st, "tarStream", StringS, l), z))
			e.ghostSet(s.st, "tarPad", IntS, l, IntT(0))
			e.ghostSet(s.st, "tarBytes", IntS, l, Add(e.ghostGet(s.st, "tarBytes", IntS, l), Add(pad, IntT(1024))))
			e.ghostSet(s.st, "tarClosed", BoolS, l, Eq(werr, NilIface))
		})
		return Ite(skip, pre, werr)
	}
	m["archive/tar.FileInfoHeader"] = func(c *CallCtx) *Term {
		// header derived from an fs.FileInfo: name, size, mode, mtime, typeflag
		HT := e.namedType("archive/tar", "Header")
		fi := c.args[0]
		call := func(name string, rt types.Type) *Term {
			T, mth := e.ifaceMethod("io/fs", "FileInfo", name)
			r, _ := e.invoke(c.fr, c.instr, fi, T, mth, nil, rt, c.st, c.pc, c.label+"."+name)
			return r
		}
		h := e.allocLoc(c.st)
		e.zeroInit(c.st, HT, h)
		mode := call("Mode", e.namedType("io/fs", "FileMode"))
		e.setField(c.st, HT, h, "Name", call("Name", tString))
		e.setField(c.st, HT, h, "ModTime", call("ModTime", e.namedType("time", "Time")))
		e.setField(c.st, HT, h, "Mode", ModE(mode, IntT(512)))
		isDir := Eq(bitOf(mode, 31), IntT(1))
		isLink := Eq(bitOf(mode, 27), IntT(1))
		special := Fresh("fih.special", BoolS) // devices, fifos, sockets: not distinguished here
		e.axiom(Implies(special, Neq(DivE(ModE(mode, pow2(32)), pow2(18)), IntT(0))))
		e.setField(c.st, HT, h, "Typeflag", Ite(isDir, IntT('5'), Ite(isLink, IntT('2'), Ite(special, uf("fihTypeflag", IntS, mode), IntT('0')))))
		e.setField(c.st, HT, h, "Size", Ite(Or(isDir, isLink, special), IntT(0), call("Size", types.Typ[types.Int64])))
		e.setField(c.st, HT, h, "Linkname", Ite(isLink, c.args[1], StrT("")))
		sock := And(special, Fresh("fih.sock", BoolS))
		// (the header pointer is returned on the error path too: callers check err first;
		// a use of the nil header after an unchecked error is not modelled)
		return c.ret(h, Ite(sock, e.libErr("tar:socket"), NilIface))
	}
	// a tar builder supplied by the caller (apk.writeTgz): writes an arbitrary
	// sequence of complete entries, or fails.  archive/tar keeps
	// (bytes emitted + pending padding) a multiple of 512 between entries.
	m["funcval:P:apk.writeTgz.builder"] = func(c *CallCtx) *Term {
		l := c.args[0]
		fails := c.nondet("builder")
		c.setFailed(False)
		data := Fresh("built", StringS)
		pad := Fresh("builtPad", IntS)
		c.axiom(And(Le(IntT(0), pad), Lt(pad, IntT(512))))
		c.axiom(Eq(ModE(Add(StrLen(data), pad), IntT(512)), IntT(0)))
		var werr *Term = NilIface
		werr = e.pushDown(c, l, data)
		e.ghostSet(c.st, "tarStream", StringS, l, Concat(e.ghostGet(c.st, "tarStream", StringS, l), data))
		e.ghostSet(c.st, "tarPad", IntS, l, pad)
		e.ghostSet(c.st, "tarRemaining", IntS, l, IntT(0))
		e.ghostSet(c.st, "tarBytes", IntS, l, Add(e.ghostGet(c.st, "tarBytes", IntS, l), StrLen(data)))
		return Ite(fails, e.libErr("builder"), werr)
	}
	// ---------------- compressors ----------------
	newComp := func(kind string, fallible bool) ModelFn {
		return func(c *CallCtx) *Term {
			l := e.allocLoc(c.st)
			e.ghostSet(c.st, "under", IfaceS, l, c.args[0])
			e.ghostSet(c.st, "werr", IfaceS, l, NilIface)
			e.ghostSet(c.st, "accepted", StringS, l, StrT(""))
			e.ghostSet(c.st, "zclosed", BoolS, l, False)
			e.ghostSet(c.st, "zkind", StringS, l, StrT(kind))
			if fallible {
				bad := c.nondet("newcomp")
				return c.ret(Ite(bad, NilLoc, l), Ite(bad, e.libErr(kind+":new"), NilIface))
			}
			return l
		}
	}
	compWrite := func(c *CallCtx) *Term {
		l, p := c.args[0], c.args[1]
		sticky := e.ghostGet(c.st, "werr", IfaceS, l)
		closed := e.ghostGet(c.st, "zclosed", BoolS, l)
		bad := Or(Neq(sticky, NilIface), closed)
		var werr *Term = NilIface
		e.guarded(c, Not(bad), func(s *CallCtx) {
			acc := Concat(e.ghostGet(s.st, "accepted", StringS, l), p)
			e.ghostSet(s.st, "accepted", StringS, l, acc)
			// the compressor may emit a block now or later (at the latest on Close)
			emit := s.nondet("zflush")
			e.guarded(s, emit, func(s2 *CallCtx) {
				werr = e.pushDown(s2, l, uf("zblock", StringS, acc, Fresh("zblk", IntS)))
			})
			werr = Ite(emit, werr, NilIface)
		})
		err := Ite(Neq(sticky, NilIface), sticky, Ite(closed, e.libErr("z:closed"), werr))
		return c.ret(Ite(Eq(err, NilIface), StrLen(p), IntT(0)), err)
	}
	compClose := func(c *CallCtx) *Term {
		l := c.args[0]
		sticky := e.ghostGet(c.st, "werr", IfaceS, l)
		closed := e.ghostGet(c.st, "zclosed", BoolS, l)
		skip := Or(closed, Neq(sticky, NilIface))
		var werr *Term = NilIface
		e.guarded(c, Not(skip), func(s *CallCtx) {
			acc := e.ghostGet(s.st, "accepted", StringS, l)
			e.globSet(s.st, "compressedInput", StringS, acc)
			werr = e.pushDown(s, l, uf("ztail", StringS, e.ghostGet(s.st, "zkind", StringS, l), acc))
			e.ghostSet(s.st, "zclosed", BoolS, l, True)
		})
		return Ite(closed, NilIface, Ite(Neq(sticky, NilIface), sticky, werr))
	}
	for _, p := range []string{"compress/gzip", "github.com/klauspost/pgzip"} {
		m[p+".NewWriter"] = newComp("gzip", false)
		m[p+".NewWriterLevel"] = newComp("gzip", true)
		m["(*"+p+".Writer).Write"] = compWrite
		m["(*"+p+".Writer).Close"] = compClose
	}
	m["github.com/klauspost/compress/zstd.NewWriter"] = newComp("zstd", true)
	m["(*github.com/klauspost/compress/zstd.Encoder).Write"] = compWrite
	m["(*github.com/klauspost/compress/zstd.Encoder).Close"] = compClose
	m["github.com/ulikunitz/xz.NewWriter"] = newComp("xz", true)
	m["(*github.com/ulikunitz/xz.Writer).Write"] = compWrite
	m["(*github.com/ulikunitz/xz.Writer).Close"] = compClose
	// ---------------- blakesmith/ar ----------------
	m["github.com/blakesmith/ar.NewWriter"] = func(c *CallCtx) *Term {
		l := e.allocLoc(c.st)
		e.ghostSet(c.st, "under", IfaceS, l, c.args[0])
		e.ghostSet(c.st, "werr", IfaceS, l, NilIface)
		e.ghostSet(c.st, "members", IntS, l, IntT(0))
		return l
	}
	m["(*github.com/blakesmith/ar.Writer).WriteGlobalHeader"] = func(c *CallCtx) *Term {
		return e.pushDown(c, c.args[0], StrT("!<arch>\n"))
	}
	m["(*github.com/blakesmith/ar.Writer).WriteHeader"] = func(c *CallCtx) *Term {
		l, h := c.args[0], c.args[1]
		HT := e.namedType("github.com/blakesmith/ar", "Header")
		hv := func(n string) *Term { return e.getField(c.st, HT, h, n) }
		mem := uf("arMember", IntS, hv("Name"), hv("Size"), hv("ModTime"), hv("Mode"))
		blk := uf("arHdrBytes", StringS, mem)
		e.axiom(Eq(StrLen(blk), IntT(60)))
		e.ghostSet(c.st, "members", IntS, l, uf("tcons", IntS, e.ghostGet(c.st, "members", IntS, l), mem))
		// the member names, in order, are also recorded on the destination writer
		uk := e.objKey(e.ghostGet(c.st, "under", IfaceS, l))
		e.ghostSet(c.st, "arNames", StringS, uk, Concat(e.ghostGet(c.st, "arNames", StringS, uk), hv("Name"), StrT("\n")))
		return e.pushDown(c, l, blk)
	}
	m["(*github.com/blakesmith/ar.Writer).Write"] = func(c *CallCtx) *Term {
		l, p := c.args[0], c.args[1]
		odd := Eq(ModE(StrLen(p), IntT(2)), IntT(1))
		e.ghostSet(c.st, "members", IntS, l, uf("tbody", IntS, e.ghostGet(c.st, "members", IntS, l), p))
		uk := e.objKey(e.ghostGet(c.st, "under", IfaceS, l))
		e.ghostSet(c.st, "arBodies", StringS, uk, Concat(e.ghostGet(c.st, "arBodies", StringS, uk), p))
		err := e.pushDown(c, l, Ite(odd, Concat(p, StrT("\n")), p))
		return c.ret(Ite(Eq(err, NilIface), StrLen(p), IntT(0)), err)
	}
}
