package main

import (
	"flag"
	"fmt"
	"os"
	"sort"
	"strings"
	"time"
)

type Session struct {
	ld   *Loaded
	e    *Engine
	init *State
}

func newSession(debug bool) (*Session, error) {
	t0 := time.Now()
	ld, err := load()
	if err != nil {
		return nil, err
	}
	tLoad := time.Since(t0).Seconds()
	e := newEngine(ld.prog, ld.fset)
	e.debug = debug
	e.files = ld.files
	e.stubs = ld.stubs
	if err := e.bind(ld); err != nil {
		return nil, err
	}
	t1 := time.Now()
	init := e.runInits(ld)
	if debug {
		fmt.Fprintf(os.Stderr, "load %.1fs, init %.1fs, notes %v\n", tLoad, time.Since(t1).Seconds(), e.notes)
	}
	return &Session{ld: ld, e: e, init: init}, nil
}

func (s *Session) contractsSorted() []*Contract {
	var cs []*Contract
	for _, c := range s.e.contracts {
		cs = append(cs, c)
	}
	sort.Slice(cs, func(i, j int) bool { return cs[i].Key < cs[j].Key })
	return cs
}

func main() {
	if len(os.Args) < 2 {
		fmt.Fprintln(os.Stderr, "usage: gvc dev|check|replay ...")
		os.Exit(2)
	}
	switch os.Args[1] {
	case "dev":
		devCmd(os.Args[2:])
	case "check":
		os.Exit(checkCmd(os.Args[2:]))
	case "stubs":
		ld, err := load()
		for p, s := range ld.stubs {
			fmt.Printf("==== %s\n%s\n", p, s)
		}
		if err != nil {
			fmt.Println(err)
			os.Exit(1)
		}
	default:
		fmt.Fprintln(os.Stderr, "unknown command")
		os.Exit(2)
	}
}

func devCmd(args []string) {
	fs := flag.NewFlagSet("dev", flag.ExitOnError)
	fnFilter := fs.String("fn", "", "substring of the function key")
	solve := fs.Bool("solve", false, "run solvers")
	timeout := fs.Int("t", 10, "solver timeout (s)")
	show := fs.Bool("show", false, "print goal terms")
	debug := fs.Bool("debug", false, "panic with stack on engine errors")
	fs.Parse(args)
	t0 := time.Now()
	s, err := newSession(*debug)
	if err != nil {
		fmt.Println(err)
		os.Exit(1)
	}
	fmt.Printf("loaded in %.1fs; %d contracts\n", time.Since(t0).Seconds(), len(s.e.contracts))
	for _, c := range s.contractsSorted() {
		if c.Callback || (c.Inline && len(c.Ensures)+len(c.Requires) == 0 && len(c.Modifies) == 0) {
			continue
		}
		if *fnFilter != "" && !strings.Contains(c.Key, *fnFilter) {
			continue
		}
		for _, r := range s.e.verifyFunctionCases(c, s.init) {
			t1 := time.Now()
			fmt.Printf("== %s: %d obligations, %.2fs exec", r.Fn, len(r.Obls), time.Since(t1).Seconds())
			if r.Err != "" {
				fmt.Printf("  ERROR: %s", r.Err)
			}
			fmt.Println()
			for k, n := range r.Unmod {
				fmt.Printf("   unmodelled: %s x%d\n", k, n)
			}
			for k := range r.Notes {
				fmt.Printf("   note: %s\n", k)
			}
			staticDischarge(r.Obls)
			if *solve {
				dir := "/tmp/gvc-dev"
				s.e.solveObligations(r.Obls, r.Axioms, r.Assumes, r.AssumePCs, dir, *timeout, 6, false)
			}
			for _, o := range r.Obls {
				fmt.Printf("   %-8s %-7s %5.2fs %6d  %s\n", o.Status, o.Solver, o.Time, o.SMTLen, o.ID)
				if *show {
					p := newPrinter()
					p.count(o.Goal)
					p.count(o.PC)
					fmt.Printf("      pc: %s\n", p.expr(o.PC))
					fmt.Printf("      goal: %s\n", p.expr(o.Goal))
					for _, d := range p.defs {
						fmt.Printf("        %s\n", d)
					}
				}
				if *solve && o.Status != "unsat" && o.Status != "static" && !o.Cover {
					fmt.Printf("      file: %s\n", o.smtFile)
				}
			}
		}
	}
}

func staticDischarge(obls []*Obligation) {
	for _, o := range obls {
		if o.Cover {
			continue
		}
		if Implies(o.PC, o.Goal).IsTrue() {
			o.Status = "static"
		}
	}
}
