/-
  /verif/lemmas/Rpm.lean — spec-level lemma L6-iii of DESIGN.md (property C14, rpm).

  The contracts on nfpm's code prove that the rpm Version tag has the SHAPE
  V ["~" pre'] ["+" meta]  with  pre' = ReplaceAll(pre, "-", "_")  and the release in its own
  tag; this file proves that rpmvercmp puts  P ++ "~" ++ x  strictly before  P ++ y  for every
  common prefix P, when y is empty or starts with a separator (nfpm emits '+') and the first
  character after y's leading separators is not '~' (semver metadata is [0-9A-Za-z.-]+).
  Trusted: that `rpmcmp` transcribes rpmio/rpmvercmp.c. Check:  lean Rpm.lean  (~2 s).
-/

/-- characters rpmvercmp skips between segments -/
def sep (c : Char) : Bool := !c.isAlphanum && c != '~' && c != '^'

def skipSep (s : List Char) : List Char := s.dropWhile sep

def stripZeros (s : List Char) : List Char := s.dropWhile (· == '0')

/-- strcmp, sign only -/
def strcmp : List Char → List Char → Int
  | [], [] => 0
  | [], _ :: _ => -1
  | _ :: _, [] => 1
  | a :: as, b :: bs => if a.toNat < b.toNat then -1 else if b.toNat < a.toNat then 1 else strcmp as bs

def rpmcmp : Nat → List Char → List Char → Int
  | 0, _, _ => 0
  | n+1, a, b =>
    let one := skipSep a
    let two := skipSep b
    if one.head? = some '~' || two.head? = some '~' then
      if one.head? ≠ some '~' then 1
      else if two.head? ≠ some '~' then -1
      else rpmcmp n one.tail two.tail
    else if one.head? = some '^' || two.head? = some '^' then
      if one.isEmpty then -1
      else if two.isEmpty then 1
      else if one.head? ≠ some '^' then 1
      else if two.head? ≠ some '^' then -1
      else rpmcmp n one.tail two.tail
    else if one.isEmpty || two.isEmpty then
      if one.isEmpty && two.isEmpty then 0 else if !one.isEmpty then 1 else -1
    else
      let isnum := (one.head?.getD 'a').isDigit
      let p : Char → Bool := if isnum then Char.isDigit else Char.isAlpha
      let s1 := one.takeWhile p
      let s2 := two.takeWhile p
      if s1.isEmpty then -1
      else if s2.isEmpty then (if isnum then 1 else -1)
      else
        let t1 := if isnum then stripZeros s1 else s1
        let t2 := if isnum then stripZeros s2 else s2
        if isnum && t2.length < t1.length then 1
        else if isnum && t1.length < t2.length then -1
        else
          let rc := strcmp t1 t2
          if rc ≠ 0 then (if rc < 0 then -1 else 1)
          else rpmcmp n (one.dropWhile p) (two.dropWhile p)

def rpmvercmp (a b : List Char) : Int := rpmcmp (a.length + b.length + 1) a b

#eval rpmvercmp "1.0.0~rc1".toList "1.0.0".toList
#eval rpmvercmp "1.0.0~beta_1+git5".toList "1.0.0+git5".toList
#eval rpmvercmp "1.0.10".toList "1.0.9".toList
#eval rpmvercmp "1.0.0".toList "1.0.0".toList
#eval rpmvercmp "1.0a".toList "1.0".toList
#eval rpmvercmp "1.0^git".toList "1.0".toList

/-! ### list helpers -/

def headFails (p : Char → Bool) : List Char → Prop
  | [] => True
  | c :: _ => p c = false

theorem tw_app (p : Char → Bool) (L A : List Char) (hA : headFails p A) :
    (L ++ A).takeWhile p = L.takeWhile p := by
  induction L with
  | nil =>
    cases A with
    | nil => rfl
    | cons c t => simp [headFails] at hA; simp [List.takeWhile, hA]
  | cons c L ih =>
    by_cases hc : p c = true
    · simp [List.takeWhile, hc, ih]
    · simp at hc; simp [List.takeWhile, hc]

theorem dw_app (p : Char → Bool) (L A : List Char) (hA : headFails p A) :
    (L ++ A).dropWhile p = L.dropWhile p ++ A := by
  induction L with
  | nil =>
    cases A with
    | nil => rfl
    | cons c t => simp [headFails] at hA; simp [List.dropWhile, hA]
  | cons c L ih =>
    by_cases hc : p c = true
    · simp [List.dropWhile, hc, ih]
    · simp at hc; simp [List.dropWhile, hc]

theorem dw_length_le (p : Char → Bool) (L : List Char) : (L.dropWhile p).length ≤ L.length := by
  induction L with
  | nil => simp
  | cons c L ih =>
    by_cases hc : p c = true
    · simp [List.dropWhile, hc]; omega
    · simp at hc; simp [List.dropWhile, hc]

theorem strcmp_self (s : List Char) : strcmp s s = 0 := by
  induction s with
  | nil => rfl
  | cons c s ih => simp [strcmp, ih]

/-! ### the tails -/

/-- what may follow the common prefix on the release side -/
def yOKr (y : List Char) : Prop :=
  (match y with | [] => True | c :: _ => sep c = true) ∧ (skipSep y).head? ≠ some '~'

theorem sep_notDigit {c : Char} (h : sep c = true) : c.isDigit = false := by
  simp [sep, Char.isAlphanum] at h
  exact h.1.1.2
theorem sep_notAlpha {c : Char} (h : sep c = true) : c.isAlpha = false := by
  simp [sep, Char.isAlphanum] at h
  exact h.1.1.1

theorem headFails_y (y : List Char) (h : yOKr y) (p : Char → Bool)
    (hp : p = Char.isDigit ∨ p = Char.isAlpha) : headFails p y := by
  cases y with
  | nil => simp [headFails]
  | cons c t =>
    have hs : sep c = true := h.1
    rcases hp with rfl | rfl
    · simpa [headFails] using sep_notDigit hs
    · simpa [headFails] using sep_notAlpha hs

theorem headFails_tilde (x : List Char) (p : Char → Bool)
    (hp : p = Char.isDigit ∨ p = Char.isAlpha) : headFails p ('~' :: x) := by
  rcases hp with rfl | rfl <;> simp [headFails] <;> decide

theorem sep_tilde : sep '~' = false := by decide

theorem skipSep_tilde (x : List Char) : skipSep ('~' :: x) = '~' :: x := by
  simp [skipSep, List.dropWhile, sep_tilde]

theorem dw_idem (p : Char → Bool) (L : List Char) : (L.dropWhile p).dropWhile p = L.dropWhile p := by
  induction L with
  | nil => rfl
  | cons c L ih =>
    by_cases hc : p c = true
    · simp [List.dropWhile, hc, ih]
    · simp at hc; simp [List.dropWhile, hc]

/-- the loop body only looks at the separator-skipped strings -/
theorem rpmcmp_skip (n : Nat) (a b : List Char) :
    rpmcmp n (skipSep a) (skipSep b) = rpmcmp n a b := by
  cases n with
  | zero => rfl
  | succ n =>
    have ha : skipSep (skipSep a) = skipSep a := dw_idem sep a
    have hb : skipSep (skipSep b) = skipSep b := dw_idem sep b
    simp only [rpmcmp, ha, hb]

theorem skipSep_cons_sep {c : Char} (h : sep c = true) (s : List Char) :
    skipSep (c :: s) = skipSep s := by
  simp [skipSep, List.dropWhile, h]

theorem skipSep_cons_nonsep {c : Char} (h : sep c = false) (s : List Char) :
    skipSep (c :: s) = c :: s := by
  simp [skipSep, List.dropWhile, h]


/-! ### the ordering lemma -/

theorem rpm_prefix_lt (x y : List Char) (hy : yOKr y) :
    ∀ m, ∀ P : List Char, P.length ≤ m →
      ∀ n, P.length + 1 ≤ n → rpmcmp n (P ++ '~' :: x) (P ++ y) < 0 := by
  -- end of the common prefix
  have base : ∀ n, 1 ≤ n → rpmcmp n ('~' :: x) y < 0 := by
    intro n hn
    obtain ⟨k, rfl⟩ : ∃ k, n = k + 1 := ⟨n - 1, by omega⟩
    have h2 : (skipSep y).head? ≠ some '~' := hy.2
    simp [rpmcmp, skipSep_tilde, h2]
  intro m
  induction m with
  | zero =>
    intro P hP n hn
    have : P = [] := by cases P with | nil => rfl | cons _ _ => simp at hP
    subst this
    exact base n (by simpa using hn)
  | succ m ih =>
    intro P hP n hn
    cases P with
    | nil => exact base n (by simpa using hn)
    | cons c P0 =>
      have hP0 : P0.length ≤ m := by simp at hP; omega
      have hn' : P0.length + 2 ≤ n := by simp at hn; omega
      show rpmcmp n (c :: (P0 ++ '~' :: x)) (c :: (P0 ++ y)) < 0
      by_cases hs : sep c = true
      · -- a separator inside the prefix is skipped on both sides, no fuel used
        have e := rpmcmp_skip n (c :: (P0 ++ '~' :: x)) (c :: (P0 ++ y))
        have e' := rpmcmp_skip n (P0 ++ '~' :: x) (P0 ++ y)
        simp only [skipSep_cons_sep hs] at e
        rw [← e, e']
        exact ih P0 hP0 n (by omega)
      · have hs' : sep c = false := by simpa using hs
        obtain ⟨k, rfl⟩ : ∃ k, n = k + 1 := ⟨n - 1, by omega⟩
        have e1 : skipSep (c :: (P0 ++ '~' :: x)) = c :: (P0 ++ '~' :: x) := skipSep_cons_nonsep hs' _
        have e2 : skipSep (c :: (P0 ++ y)) = c :: (P0 ++ y) := skipSep_cons_nonsep hs' _
        by_cases ht : c = '~'
        · subst ht
          simp [rpmcmp, e1, e2]
          exact ih P0 hP0 k (by omega)
        · by_cases hc : c = '^'
          · subst hc
            simp [rpmcmp, e1, e2]
            exact ih P0 hP0 k (by omega)
          · -- c is alphanumeric: one whole segment of the prefix is consumed
            have halnum : c.isAlphanum = true := by
              simp [sep, ht, hc] at hs'
              exact hs'
            have hseg : c.isDigit = true ∨ (c.isDigit = false ∧ c.isAlpha = true) := by
              simp [Char.isAlphanum] at halnum
              by_cases hd : c.isDigit = true
              · exact Or.inl hd
              · simp at hd; simp [hd] at halnum; exact Or.inr ⟨hd, halnum⟩
            -- generic step for the predicate p that delimits the segment
            have step : ∀ p : Char → Bool, (p = Char.isDigit ∨ p = Char.isAlpha) → p c = true →
                rpmcmp k (((c :: P0).dropWhile p) ++ '~' :: x) (((c :: P0).dropWhile p) ++ y) < 0 := by
              intro p _ hpc
              have hl : ((c :: P0).dropWhile p).length ≤ P0.length := by
                simp [List.dropWhile, hpc]; exact dw_length_le p P0
              exact ih _ (by omega) k (by omega)
            rcases hseg with hd | ⟨hd, ha⟩
            · have hp : (Char.isDigit = Char.isDigit ∨ Char.isDigit = Char.isAlpha) := Or.inl rfl
              have s := step Char.isDigit hp hd
              have twA := tw_app Char.isDigit (c :: P0) ('~' :: x) (headFails_tilde x _ hp)
              have twB := tw_app Char.isDigit (c :: P0) y (headFails_y y hy _ hp)
              have dwA := dw_app Char.isDigit (c :: P0) ('~' :: x) (headFails_tilde x _ hp)
              have dwB := dw_app Char.isDigit (c :: P0) y (headFails_y y hy _ hp)
              have hne : ((c :: P0).takeWhile Char.isDigit).isEmpty = false := by
                simp [List.takeWhile, hd]
              simp only [List.cons_append] at twA twB dwA dwB
              simp [rpmcmp, e1, e2, ht, hc, hd, twA, twB, dwA, dwB, strcmp_self]
              simp [List.takeWhile, hd] at hne ⊢
              simpa [List.dropWhile, hd] using s
            · have hp : (Char.isAlpha = Char.isDigit ∨ Char.isAlpha = Char.isAlpha) := Or.inr rfl
              have s := step Char.isAlpha hp ha
              have twA := tw_app Char.isAlpha (c :: P0) ('~' :: x) (headFails_tilde x _ hp)
              have twB := tw_app Char.isAlpha (c :: P0) y (headFails_y y hy _ hp)
              have dwA := dw_app Char.isAlpha (c :: P0) ('~' :: x) (headFails_tilde x _ hp)
              have dwB := dw_app Char.isAlpha (c :: P0) y (headFails_y y hy _ hp)
              simp only [List.cons_append] at twA twB dwA dwB
              simp [rpmcmp, e1, e2, ht, hc, hd, twA, twB, dwA, dwB, strcmp_self]
              simp [List.takeWhile, ha]
              simpa [List.dropWhile, ha] using s

/-- C14 (rpm): with a common prefix P, the prerelease form sorts strictly before the release form. -/
theorem rpm_prerelease_lt (P x y : List Char) (hy : yOKr y) :
    rpmvercmp (P ++ '~' :: x) (P ++ y) < 0 := by
  unfold rpmvercmp
  exact rpm_prefix_lt x y hy P.length P (Nat.le_refl _) _ (by simp; omega)

theorem yOKr_nil : yOKr [] := by simp [yOKr, skipSep]

theorem sep_plus : sep '+' = true := by decide

/-- the tail nfpm emits: "+" ++ metadata, metadata not starting (after separators) with '~' -/
theorem yOKr_plus (m : List Char) (h : (skipSep m).head? ≠ some '~') : yOKr ('+' :: m) := by
  refine ⟨sep_plus, ?_⟩
  rw [skipSep_cons_sep sep_plus]
  exact h

#print axioms rpm_prerelease_lt
