/-
  /verif/lemmas/Dpkg.lean — spec-level lemma L6-ii of DESIGN.md (property C14, deb and ipk).

  No code of /repo is involved here. The contracts on nfpm's code prove that the deb/ipk
  version string has the SHAPE   [epoch ":"] V ["~" pre] ["+" meta] ["-" release];
  this file proves that, for that shape, dpkg's own comparison puts the prerelease build
  strictly before the corresponding release. Trusted: that `nd`/`dg`/`debcmp` below
  transcribe lib/dpkg/version.c (verrevcmp, order) and the upstream/revision split.
  Hypotheses of the final theorem: V contains no '-' (true for "M.m.p"); the tail is empty
  or starts with '+' or '-'. Check:  lean Dpkg.lean   (core Lean only, ~2 s).
-/

def isDig (c : Char) : Bool := c.isDigit

/-- dpkg `order()`; `none` is the terminating NUL. -/
def order : Option Char → Int
  | none => 0
  | some c => if c.isDigit then 0 else if c.isAlpha then (c.toNat : Int)
              else if c = '~' then -1 else (c.toNat : Int) + 256

def headNonDigit : List Char → Bool
  | [] => false
  | c :: _ => !isDig c

def headDigit : List Char → Bool
  | [] => false
  | c :: _ => isDig c

def dropZeros : List Char → List Char
  | [] => []
  | c :: cs => if c = '0' then dropZeros cs else c :: cs

mutual
  /-- non-digit phase of the outer loop -/
  def nd : Nat → List Char → List Char → Int
    | 0, _, _ => 0
    | n+1, a, b =>
      if headNonDigit a || headNonDigit b then
        if order a.head? ≠ order b.head? then order a.head? - order b.head?
        else nd n a.tail b.tail
      else dg n 0 (dropZeros a) (dropZeros b)
  /-- digit phase, `fd` is first_diff -/
  def dg : Nat → Int → List Char → List Char → Int
    | 0, _, _, _ => 0
    | n+1, fd, a, b =>
      if headDigit a && headDigit b then
        dg n (if fd = 0 then ((a.head?.getD '0').toNat : Int) - ((b.head?.getD '0').toNat : Int) else fd) a.tail b.tail
      else if headDigit a then 1
      else if headDigit b then -1
      else if fd ≠ 0 then fd
      else if a.isEmpty && b.isEmpty then 0
      else nd n a b
end

def verrevcmp (a b : List Char) : Int := nd (3 * (a.length + b.length) + 3) a b

#eval verrevcmp "1.0.0~rc1".toList "1.0.0".toList
#eval verrevcmp "1.0.0~rc1+git".toList "1.0.0+git".toList
#eval verrevcmp "1.0.10".toList "1.0.9".toList
#eval verrevcmp "1.0.0".toList "1.0.0".toList
#eval verrevcmp "1.0a".toList "1.0~".toList

/-- what may follow the common prefix on the release side: nothing, or a char that is
    not a digit and orders above '~' (this covers '+' and '-'). -/
def yOK : List Char → Prop
  | [] => True
  | c :: _ => isDig c = false ∧ (-1 : Int) < order (some c)

theorem tilde_notDig : isDig '~' = false := by decide
theorem order_tilde : order (some '~') = -1 := by decide

theorem yOK_plus (t : List Char) : yOK ('+' :: t) := by
  refine ⟨by decide, by decide⟩
theorem yOK_minus (t : List Char) : yOK ('-' :: t) := by
  refine ⟨by decide, by decide⟩

theorem order_head_lt {y : List Char} (h : yOK y) : order (some '~') < order y.head? := by
  cases y with
  | nil => simp [order]
  | cons c t => simp [yOK] at h; simp [order_tilde]; exact h.2

theorem headNonDigit_tilde (x : List Char) : headNonDigit ('~' :: x) = true := by
  simp [headNonDigit, tilde_notDig]

theorem headDigit_y {y : List Char} (h : yOK y) : headDigit y = false := by
  cases y with
  | nil => rfl
  | cons c t => simp [yOK] at h; simp [headDigit, h.1]

theorem zero_isDig : isDig '0' = true := by decide

theorem dropZeros_y {y : List Char} (h : yOK y) : dropZeros y = y := by
  cases y with
  | nil => rfl
  | cons c t =>
    simp [yOK] at h
    have : c ≠ '0' := by
      intro hc; subst hc; simp [zero_isDig] at h
    simp [dropZeros, this]

theorem dropZeros_tilde (x : List Char) : dropZeros ('~' :: x) = '~' :: x := by
  have : ('~' : Char) ≠ '0' := by decide
  simp [dropZeros, this]

/-- dropping leading zeros of a common prefix leaves a (shorter or equal) common prefix -/
theorem dropZeros_prefix (P : List Char) :
    ∃ P', P'.length ≤ P.length ∧
      ∀ s, dropZeros s = s → dropZeros (P ++ s) = P' ++ s := by
  induction P with
  | nil => exact ⟨[], Nat.le_refl _, by intro s hs; simpa using hs⟩
  | cons c P ih =>
    obtain ⟨P', hlen, hP'⟩ := ih
    by_cases hc : c = '0'
    · refine ⟨P', Nat.le_succ_of_le hlen, ?_⟩
      intro s hs
      simp [dropZeros, hc, hP' s hs]
    · refine ⟨c :: P, Nat.le_refl _, ?_⟩
      intro s _
      simp [dropZeros, hc]

/-- Both phases, for every common prefix up to a given length. -/
theorem prefix_lt (x y : List Char) (hy : yOK y) :
    ∀ m, ∀ P : List Char, P.length ≤ m →
      (∀ n, 3 * P.length + 3 ≤ n → nd n (P ++ '~' :: x) (P ++ y) < 0) ∧
      (∀ n, 3 * P.length + 2 ≤ n → dg n 0 (P ++ '~' :: x) (P ++ y) < 0) := by
  -- the base facts at the end of the common prefix
  have N0 : ∀ n, 1 ≤ n → nd n ('~' :: x) y < 0 := by
    intro n hn
    obtain ⟨k, rfl⟩ : ∃ k, n = k + 1 := ⟨n - 1, by omega⟩
    have hlt := order_head_lt (y := y) hy
    have hne : order (some '~') ≠ order y.head? := by omega
    simp [nd, headNonDigit_tilde, hne]
    omega
  have D0 : ∀ n, 2 ≤ n → dg n 0 ('~' :: x) y < 0 := by
    intro n hn
    obtain ⟨k, rfl⟩ : ∃ k, n = k + 1 := ⟨n - 1, by omega⟩
    have h1 : headDigit ('~' :: x) = false := by simp [headDigit, tilde_notDig]
    have h2 : headDigit y = false := headDigit_y hy
    simp [dg, h1, h2]
    exact N0 k (by omega)
  intro m
  induction m with
  | zero =>
    intro P hP
    have : P = [] := by cases P with | nil => rfl | cons _ _ => simp at hP
    subst this
    exact ⟨fun n hn => N0 n (by simp at hn; omega), fun n hn => D0 n (by simp at hn; omega)⟩
  | succ m ih =>
    intro P hP
    cases P with
    | nil => exact ⟨fun n hn => N0 n (by simp at hn; omega), fun n hn => D0 n (by simp at hn; omega)⟩
    | cons c P0 =>
      have hP0 : P0.length ≤ m := by simp at hP; omega
      have ihN := (ih P0 hP0).1
      have ihD := (ih P0 hP0).2
      by_cases hd : isDig c = true
      · -- c is a digit
        have Dc : ∀ n, 3 * (c :: P0).length + 2 ≤ n → dg n 0 ((c :: P0) ++ '~' :: x) ((c :: P0) ++ y) < 0 := by
          intro n hn
          obtain ⟨k, rfl⟩ : ∃ k, n = k + 1 := ⟨n - 1, by simp at hn; omega⟩
          simp [dg, headDigit, hd]
          exact ihD k (by simp at hn; omega)
        refine ⟨?_, Dc⟩
        intro n hn
        obtain ⟨k, rfl⟩ : ∃ k, n = k + 1 := ⟨n - 1, by simp at hn; omega⟩
        have hnd : headNonDigit ((c :: P0) ++ '~' :: x) = false := by simp [headNonDigit, hd]
        have hnd' : headNonDigit ((c :: P0) ++ y) = false := by simp [headNonDigit, hd]
        simp only [nd, hnd, hnd', Bool.or_self, Bool.false_eq_true, if_false]
        by_cases hc : c = '0'
        · obtain ⟨P', hlen, hP'⟩ := dropZeros_prefix P0
          have e1 : dropZeros ((c :: P0) ++ '~' :: x) = P' ++ '~' :: x := by
            simp [dropZeros, hc, hP' _ (dropZeros_tilde x)]
          have e2 : dropZeros ((c :: P0) ++ y) = P' ++ y := by
            simp [dropZeros, hc, hP' _ (dropZeros_y hy)]
          rw [e1, e2]
          exact (ih P' (by omega)).2 k (by simp at hn; omega)
        · have e1 : dropZeros ((c :: P0) ++ '~' :: x) = (c :: P0) ++ '~' :: x := by
            simp [dropZeros, hc]
          have e2 : dropZeros ((c :: P0) ++ y) = (c :: P0) ++ y := by
            simp [dropZeros, hc]
          rw [e1, e2]
          exact Dc k (by simp at hn ⊢; omega)
      · -- c is not a digit
        have hd' : isDig c = false := by simpa using hd
        have Nc : ∀ n, 3 * P0.length + 4 ≤ n → nd n ((c :: P0) ++ '~' :: x) ((c :: P0) ++ y) < 0 := by
          intro n hn
          obtain ⟨k, rfl⟩ : ∃ k, n = k + 1 := ⟨n - 1, by omega⟩
          simp [nd, headNonDigit, hd']
          exact ihN k (by omega)
        refine ⟨fun n hn => Nc n (by simp at hn; omega), ?_⟩
        intro n hn
        obtain ⟨k, rfl⟩ : ∃ k, n = k + 1 := ⟨n - 1, by simp at hn; omega⟩
        simp [dg, headDigit, hd']
        exact Nc k (by simp at hn; omega)

/-- C14, dpkg part: with a common prefix P (the `[epoch-free] M.m.p` string or any other
    upstream prefix), the prerelease form sorts strictly before the release form. -/
theorem dpkg_prerelease_lt (P x y : List Char) (hy : yOK y) :
    verrevcmp (P ++ '~' :: x) (P ++ y) < 0 := by
  unfold verrevcmp
  exact ((prefix_lt x y hy P.length P (Nat.le_refl _)).1 _ (by simp; omega))

#print axioms dpkg_prerelease_lt


/-! Full Debian version comparison (without epoch, which is compared numerically first and
    is identical on both sides here): split at the LAST hyphen into upstream / revision,
    compare upstream with verrevcmp, then revision. -/

def hasHyphen (s : List Char) : Bool := s.any (· == '-')

/-- part before the last '-' (all of `s` when there is none) -/
def upstream : List Char → List Char
  | [] => []
  | c :: cs => if c = '-' ∧ hasHyphen cs = false then [] else c :: upstream cs

/-- part after the last '-' (empty when there is none) -/
def revision : List Char → List Char
  | [] => []
  | c :: cs => if c = '-' ∧ hasHyphen cs = false then cs else revision cs

def debcmp (a b : List Char) : Int :=
  let u := verrevcmp (upstream a) (upstream b)
  if u ≠ 0 then u else verrevcmp (revision a) (revision b)

#eval (String.ofList (upstream "1.0~rc-1-2".toList), String.ofList (revision "1.0~rc-1-2".toList))
#eval debcmp "1.0.0~rc-1-2".toList "1.0.0-2".toList
#eval debcmp "1.0.0~rc.1+git5".toList "1.0.0+git5".toList

theorem upstream_append (V s : List Char) (hV : hasHyphen V = false) :
    upstream (V ++ s) = V ++ upstream s := by
  induction V with
  | nil => rfl
  | cons c V ih =>
    simp [hasHyphen] at hV
    have hc : c ≠ '-' := hV.1
    have hV' : hasHyphen V = false := by simp [hasHyphen]; exact hV.2
    simp [upstream, hc, ih hV']

/-- the upstream part of a yOK tail is again yOK (it is a prefix: empty or same head) -/
theorem yOK_upstream {y : List Char} (h : yOK y) : yOK (upstream y) := by
  cases y with
  | nil => simp [upstream, yOK]
  | cons c t =>
    simp only [upstream]
    split
    · simp [yOK]
    · simpa [yOK] using h

/-- upstream of "~x…" still starts with '~' -/
theorem upstream_tilde (x : List Char) : ∃ x', upstream ('~' :: x) = '~' :: x' := by
  have : ('~' : Char) ≠ '-' := by decide
  exact ⟨upstream x, by simp [upstream, this]⟩

/-- C14 (deb, ipk): for a hyphen-free V (always the case for M.m.p), any prerelease `pre`
    and any tail y = ["+"meta]["-"release],   V~pre y   sorts strictly before   V y. -/
theorem deb_prerelease_lt (V pre y : List Char) (hV : hasHyphen V = false) (hy : yOK y) :
    debcmp (V ++ '~' :: (pre ++ y)) (V ++ y) < 0 := by
  unfold debcmp
  rw [upstream_append V _ hV, upstream_append V _ hV]
  obtain ⟨x', hx'⟩ := upstream_tilde (pre ++ y)
  rw [hx']
  have hlt := dpkg_prerelease_lt V x' (upstream y) (yOK_upstream hy)
  have hne : verrevcmp (V ++ '~' :: x') (V ++ upstream y) ≠ 0 := by omega
  simp [hne, hlt]

/-- the tails nfpm produces are yOK -/
theorem yOK_nil : yOK [] := by simp [yOK]
theorem yOK_meta_rel (m r : List Char) : yOK ('+' :: (m ++ r)) := yOK_plus _
theorem yOK_rel (r : List Char) : yOK ('-' :: r) := yOK_minus _

#print axioms deb_prerelease_lt
