#!/bin/bash
# Replay of the C06 finding on the real command line tool: the close of the
# target file is made to fail (strace fault injection); the property demands a
# non-zero exit and no file left at the target path.
set -u
export GOFLAGS=-mod=mod GOPROXY=off GOSUMDB=off GOTOOLCHAIN=local
D=$(mktemp -d); trap 'rm -rf $D' EXIT
(cd /repo && go build -o $D/nfpm ./cmd/nfpm) || exit 2
printf 'name: p\narch: amd64\nversion: 1.0.0\nmaintainer: m <m@x.org>\ndescription: d\n' > $D/nfpm.yaml
(cd $D && strace -f -o $D/trace.txt -P $D/out.deb -e trace=close -e inject=close:error=EIO ./nfpm package -f nfpm.yaml -p deb -t $D/out.deb)
st=$?
echo "exit status: $st"
if [ -e $D/out.deb ]; then echo "FILE LEFT at the target path: property violated"; exit 1; fi
echo "no file left at the target path"; [ $st -ne 0 ]
